"""One interpreter: default calls of tex2txt(), then a call customised through
the documented hook modify_parms that changes every table of its Parameters
object in place, then the default calls again.  Prints both sets of results;
a table that is shared between Parameters objects makes them differ."""
import json, sys
from yalafi import tex2txt

T = ('a~b -- c\\,d ``e\'\' --- \\ss{} $x$, \\[y.\\] \\begin{itemize}\\item z\\end{itemize} \\LaTeX\\ '
     '\\"a \\section{S} \\footnote{f} "a "` q')
LANGS = ('en', 'de', 'ru')


def run_all():
    out = []
    for lang in LANGS:
        for multi in (False, True):
            r = tex2txt.tex2txt(T, tex2txt.Options(lang=lang), multi_language=multi)
            out.append(json.loads(json.dumps(r)))
    return out


def spoil(p):
    objs = [p]
    for v in list(vars(p).values()):
        if hasattr(v, '__dict__') and type(v).__module__.startswith('yalafi'):
            objs.append(v)
        if isinstance(v, dict):
            objs += [x for x in v.values() if hasattr(x, '__dict__')
                     and type(x).__module__.startswith('yalafi')]
    for o in objs:
        # attributes of the object, whether stored in it or in its class
        for k in [k for k in dir(o) if not k.startswith('__')]:
            v = getattr(o, k)
            if isinstance(v, dict):
                for kk in list(v)[:3]:
                    v[kk] = 'ZZ' if isinstance(v[kk], str) else v[kk]
                v['~'] = ' '
            elif isinstance(v, list):
                v.append('ZZ')
            elif isinstance(v, set):
                v.add('ZZ')


before = run_all()
err = None
for lang in LANGS:
    try:
        tex2txt.tex2txt(T, tex2txt.Options(lang=lang), modify_parms=spoil)
    except BaseException as e:      # the spoiled call itself may fail
        err = type(e).__name__
after = run_all()
print(json.dumps({'before': before, 'after': after, 'spoiled_call': err}))
