#!/venv/bin/python
"""writes MANIFEST.json from the table below (kept in one place so that the
file stays valid)"""
import json, os
HERE = os.path.dirname(os.path.dirname(os.path.abspath(__file__)))

NOTE = ('Theorems are about the hand-written Gallina model (coq/model); the '
        'tie to /repo is (a) coq/gen tables regenerated from the working tree '
        'on every run, with their obligations re-proved, and (b) a '
        'differential correspondence run of the extracted model against the '
        'implementation. Trusted: Coq 8.16.1 kernel, ExtrOcamlBasic '
        'extraction + OCaml driver, gen_tables.py, CPython itself. No axioms.')

CHECKS = {
 'C13': dict(
    text='complete: every clause of the property is a theorem of the model of '
         'replace_phrases/substitute for all texts, position lists and rule '
         'lists (length, outside-unchanged, inserted positions, word '
         'boundaries, separator language without blank line, comment / empty '
         'left-hand side); the matcher is proved sound and complete against a '
         'declarative language of the regular expression the code builds',
    ref='6/C13',
    technique='Coq proof (induction over text/spans) + extracted-model '
              'differential check + declarative reference oracle'),
 'C20': dict(
    text='complete for the single-letter check (sound, complete, once, hits are '
         'occurrences of accepted patterns), for offset/length/context '
         'agreement and for the structure of the equation check (messages = '
         'rejected leftmost matches, none skipped); the equation matcher is a '
         'deterministic transcription of the regular expression whose '
         'equivalence with the backtracking engine is validated by the '
         'correspondence run (exhaustive small texts), not yet by a theorem',
    ref='6/C20',
    technique='Coq proof over the model of checks.py + extracted-model '
              'differential check + reference oracle + shell runs'),
 'C14': dict(
    text='complete on the model of the position arithmetic: exactness of the '
         'position mapping on a copied word, line/column characterisation, '
         'agreement of the text/JSON/XML(-b) numbers, offset shift of '
         'assembled parts, ordering (permutation, sorted, stable), locations '
         'inside the file; the HTML highlight and the command-line assembly '
         'for the proofreader are covered by the differential run only',
    ref='6/C14',
    technique='Coq proof over the model of shell/utils.py, proofreader.py, '
              'gen*.py arithmetic + differential run of the real shell (6 '
              'modes, fake proofreader) + marker-word oracle'),
 'C15': dict(
    text='complete on the model: for every decoded answer (any JSON value or '
         'a decoding failure), mode and text the pipeline ends in a report or '
         'the fatal exit, never a Python exception, and reported locations '
         'lie inside the file; UTF-8/JSON decoding itself is an oracle '
         '(CPython) and output encoding is outside the model',
    ref='6/C15',
    technique='Coq proof (case analysis over typed accessors, clamping) + '
              'exhaustive single-fault enumeration against the real shell'),
 'C18': dict(
    text='complete for the inclusion work list (all finite file systems: '
         'termination within the stated fuel, each file once, exactly the '
         'files reachable through non-skipped files, command-line files '
         'first); the extraction itself (which arguments reach the output) is '
         'decided by the differential run and the generator oracle only; one '
         'open known finding (K4)',
    ref='6/C18',
    technique='Coq proof (invariant of the work list, potential function for '
              'termination) + real shell on exhaustive small inclusion graphs '
              '+ extraction oracle'),
 'C16': dict(
    text='partial: the escaping layer (protect_html is a character map, its '
         'output holds no markup characters outside the line-break mark, '
         'decoding gives the source back) and the line splitting / highlight '
         'wrapping are theorems; region grouping, overlap list and line '
         'numbers are part of the byte-exact executable model and are decided '
         'by the correspondence run and the HTML-parsing oracle',
    ref='6/C16',
    technique='Coq proof (escaping, splitting) + byte-exact model of '
              'genhtml.py run against the implementation + HTML parser oracle'),

 'C01': dict(
    text='partial: the executable model covers scanner, expander with all '
         'handlers (cleveref excepted), blank-line pass, get_txt_pos, phrase '
         'replacement and language splitting; proved so far are the '
         'algorithm-level lemmas listed in coq/props/C01.v; the invariant over '
         'all expansion steps is decided by the differential run and the '
         'oracle, not yet by a theorem',
    ref='6/C01', technique='Coq model + lemmas; extracted-model differential '
         'run on the parser stream x option matrix; statement oracle; CLI --nums'),
 'C02': dict(
    text='partial: model as for C01; faithfulness of copied text is decided '
         'by the differential run and the marker-word oracle; theorems so far '
         'are the algorithm-level lemmas in coq/props/C02.v',
    ref='6/C02', technique='Coq model + lemmas; differential run; marker-word oracle'),
 'C03': dict(
    text='partial: model as for C01; conservation of words and absence of '
         'hidden text are decided by the differential run and the generator '
         'oracle; theorems so far: lemmas in coq/props/C03.v',
    ref='6/C03', technique='Coq model + lemmas; differential run; word / hidden-text oracle'),
 'C04': dict(
    text='partial: model as for C01 (cleveref unmodelled: oracle only); span '
         'containment is decided by the differential run and the span oracle '
         'over every catalogue entry',
    ref='6/C04', technique='Coq model + lemmas; differential run; span oracle over the catalogue'),
 'C05': dict(
    text='partial: executable model of the blank-line pass and the scanner; '
         'the layout claims are decided by the differential run and a TeX '
         'white-space reference over enumerated layouts',
    ref='6/C05', technique='Coq model + lemmas; layout enumerator; TeX reference oracle'),
 'C06': dict(
    text='partial: executable model; exhaustive strings over the alphabet of '
         'the property compared with the model and with the documented table',
    ref='6/C06', technique='Coq model + lemmas; exhaustive small strings; table oracle'),
 'C07': dict(
    text='partial: the model makes every partial Python operation explicit '
         '(result type with Exc); absence of exceptions on the malformed '
         'stream is decided by the differential run (outcome classes) with a '
         'time limit per case; no termination theorem',
    ref='6/C07', technique='Coq model with explicit exceptions and fuel; malformed-input differential run'),
 'C08': dict(
    text='partial: model of latex_error and all error sites; diagnostics and '
         'mark positions compared with the model; fault-injection oracle',
    ref='6/C08', technique='Coq model + lemmas; fault injector; differential run'),
 'C09': dict(
    text='partial: model of \\newcommand / \\def / generate_replacements; '
         'generator with its own TeX substitution semantics; three supply '
         'routes compared',
    ref='6/C09', technique='Coq model + lemmas; definition-set generator; route comparison'),
 'C10': dict(
    text='partial: model of the maths parser; formula enumerator with the '
         'statement of the property as oracle; per-language rotation',
    ref='6/C10', technique='Coq model + lemmas; formula enumerator; differential run'),
 'C11': dict(
    text='partial: model of the maths parser; equation enumerator; structural '
         'oracle; exact placeholder sequence by the differential run',
    ref='6/C11', technique='Coq model + lemmas; equation enumerator; differential run'),
 'C12': dict(
    text='partial: executable model of get_txt_pos_ml and the babel handlers; '
         'language labels, positions, placeholder rule and word equality with '
         'the single-language run by generator oracle and differential run',
    ref='6/C12', technique='Coq model + lemmas; nested-language generator; differential run'),
 'C17': dict(
    text='structural: the model is a function of document, options and files; '
         'the generated inventory of module-level state is an obligation '
         're-proved on every run; the implementation side is a differential '
         'check over call histories and server request sequences',
    ref='6/C17', technique='Coq obligation on generated inventory + history differential (fresh process vs sequence, HTTP)'),
 'C19': dict(
    text='partial: model of the unknowns bookkeeping inside the expander; '
         'list compared with the model and with the generator oracle; shell '
         '--list-unknown output',
    ref='6/C19', technique='Coq model + lemmas; differential run; generator oracle'),
}

NOT_YET = {}

def main():
    props = [json.loads(l) for l in open(os.path.join(HERE, 'properties.jsonl'))]
    checks = []
    na = []
    for p in props:
        pid = p['id']
        if pid in CHECKS:
            c = CHECKS[pid]
            checks.append({
                'property_id': pid,
                'quick_cmd': './check %s --tier quick' % pid,
                'thorough_cmd': './check %s --tier thorough' % pid,
                'evidence_file': 'evidence/%s.json' % pid,
                'replay_cmd_template': './check %s --replay {path}' % pid,
                'engine': 'coq-model',
                'level_claimed': {'category': 'proof', 'text': c['text'],
                                  'design_ref': c['ref']},
                'level_note': NOTE + ' ' + c.get('note', ''),
                'technique': c['technique'],
            })
        else:
            na.append({'property_id': pid,
                       'reason': NOT_YET.get(pid, 'check not built yet in this '
                                 'round (planned, see DESIGN.md section 6)')})
    m = {
        'version': 1,
        'setup_cmd': './setup.sh',
        'hooks': {
            'guard': 'YALAFI_VERIF',
            'enable': 'no hooks are needed: all observables are reached '
                      'through the public Python API and the command lines',
            'baseline_off_cmd': 'cd /repo && /venv/bin/python -m pytest -ra -q '
                                '-p no:cacheprovider --timeout=900 '
                                '--continue-on-collection-errors',
            'source_commits': [],
            'add_only': True,
        },
        'engines': [{
            'name': 'coq-model',
            'path': 'coq/',
            'serves_properties': sorted(CHECKS),
            'kind_free_text': 'Coq 8.16 development: executable Gallina model '
                              '(coq/model), proofs (coq/proofs, coq/props), '
                              'tables generated from /repo (coq/gen), '
                              'extraction to OCaml (driver/), Python harness',
        }],
        'checks': checks,
        'not_applicable': na,
        'notes': 'VERIF_SEED seeds the single PRNG of a run; VERIF_TIER '
                 'overrides --tier.',
    }
    with open(os.path.join(HERE, 'MANIFEST.json'), 'w') as f:
        json.dump(m, f, indent=1)

if __name__ == '__main__':
    main()
