#!/venv/bin/python
"""writes MANIFEST.json from the table below (kept in one place so that the
file stays valid)"""
import json, os
HERE = os.path.dirname(os.path.dirname(os.path.abspath(__file__)))

NOTE = ('Theorems are about the hand-written Gallina model (coq/model); the '
        'tie to /repo is (a) coq/gen tables regenerated from the working tree '
        'on every run, with their obligations re-proved, and (b) a '
        'differential correspondence run of the extracted model against the '
        'implementation. Trusted: Coq 8.16.1 kernel, ExtrOcamlBasic '
        'extraction + OCaml driver, gen_tables.py, CPython itself. No axioms.')

CHECKS = {
 'C13': dict(
    text='complete: every clause of the property is a theorem of the model of '
         'replace_phrases/substitute for all texts, position lists and rule '
         'lists (length, outside-unchanged, inserted positions, word '
         'boundaries, separator language without blank line, comment / empty '
         'left-hand side); the matcher is proved sound and complete against a '
         'declarative language of the regular expression the code builds; in '
         'multi-language mode the list rewrites the parts of the main language '
         'and nothing else (theorem over the model of tex2txt())',
    ref='6/C13',
    technique='Coq proof (induction over text/spans) + extracted-model '
              'differential check + declarative reference oracle'),
 'C20': dict(
    text='complete for the single-letter check (sound, complete, once, hits are '
         'occurrences of accepted patterns), for offset/length/context '
         'agreement and for the structure of the equation check (messages = '
         'rejected leftmost matches, none skipped); the equation matcher is a '
         'deterministic transcription of the regular expression whose '
         'equivalence with the backtracking engine is validated by the '
         'correspondence run (exhaustive small texts), not yet by a theorem',
    ref='6/C20',
    technique='Coq proof over the model of checks.py + extracted-model '
              'differential check + reference oracle + shell runs'),
 'C14': dict(
    text='complete on the model of the position arithmetic: exactness of the '
         'position mapping on a copied word, line/column characterisation, '
         'agreement of the text/JSON/XML(-b) numbers, offset shift of '
         'assembled parts, ordering (permutation, sorted, stable), locations '
         'inside the file; the HTML highlight and the command-line assembly '
         'for the proofreader are covered by the differential run only',
    ref='6/C14',
    technique='Coq proof over the model of shell/utils.py, proofreader.py, '
              'gen*.py arithmetic + differential run of the real shell (6 '
              'modes, fake proofreader) + marker-word oracle'),
 'C15': dict(
    text='complete on the model: for every decoded answer (any JSON value or '
         'a decoding failure), mode and text the pipeline ends in a report or '
         'the fatal exit, never a Python exception, and reported locations '
         'lie inside the file; UTF-8/JSON decoding itself is an oracle '
         '(CPython) and output encoding is outside the model',
    ref='6/C15',
    technique='Coq proof (case analysis over typed accessors, clamping) + '
              'exhaustive single-fault enumeration against the real shell'),
 'C18': dict(
    text='complete for the inclusion work list (all finite file systems: '
         'termination within the stated fuel, each file once, exactly the '
         'files reachable through non-skipped files, command-line files '
         'first); for the extraction: parse() with an extraction list returns '
         'the glued extracted sequences and nothing of the main flow, '
         'init_extractions empties the output of every macro and sets the '
         'template of exactly the listed ones (theorems); that each use in '
         'kept text appends one sequence is decided by the differential run '
         'and the generator oracle; one open known finding (K4)',
    ref='6/C18, 11.2',
    technique='Coq proof (invariant of the work list, potential function for '
              'termination; extraction assembly) + real shell on exhaustive '
              'small inclusion graphs + extraction oracle'),
 'C16': dict(
    text='partial: theorems for the escaping layer (protect_html is a '
         'character map, its output holds no markup characters outside the '
         'line-break mark, decoding gives the source back), line splitting / '
         'highlight wrapping, and one region of the report: the body is a '
         'gap-free, overlap-free tiling of the source stretch, every match is '
         'highlighted exactly once (in place or in the overlap list), a '
         'highlight is the escaped source span of its match (never empty), '
         'the regions partition the matches; the line cells: escaped source '
         'text is cut exactly at its line breaks, a highlight wraps every '
         'line of its span on its own, every cell of a region is closed by a '
         'line-break mark and, its own tags dropped, is one escaped source '
         'line in order (premise: no < in the style strings and the escaped '
         'URL); the table of line starts; cell i of a region over lines '
         'b..e-1 gets number b+i and the numbers never run out. '
         'That every highlight ends at or in front of the start of the '
         'region\'s last line is derived for the regions generate_html forms '
         '(any context >= 0, text ending with a line break; '
         'C16_highlights_end_inside_their_region), and that they end inside '
         'the text follows from a position map that holds offsets of the text '
         '(..._from_the_map; the range of the map is C01/C14). Which lines a region covers (context arithmetic) and the '
         'no-match branch are part of the byte-exact executable model and are '
         'decided by the correspondence run and the HTML-parsing oracle',
    ref='6/C16, 11.2',
    technique='Coq proof (escaping, splitting, region tiling, line cells and numbers) + byte-exact '
              'model of genhtml.py run against the implementation + HTML '
              'parser oracle'),

 'C01': dict(
    text='partial. Theorems for every input: equal length of text and '
         'position list for every returned text, end to end through the whole '
         'model of tex2txt() (C01_lengths); range 1..len(source) for '
         'everything in front of and behind the expander: scanner tokens with '
         'their whole extent (specials table obligation re-proved on the '
         'tables generated from /repo), error marks incl. the split mark, '
         'get_txt_pos, phrase replacement (no new position), multi-language '
         'split incl. placeholders, the +1 of the wrapper '
         '(C01_range_behind_expander); end to end through the expander for '
         'every document accepted by the decision procedure doc_in_class '
         '(C01_range_documents_of_the_class: main loop and action-line pass '
         'create no position). Not a theorem: that the expander '
         'keeps token positions and extents inside the text for documents '
         'outside that class; this premise is '
         'checked on every generated case by the oracle and the '
         'correspondence run',
    ref='6/C01, 11.2', technique='Coq proof (end-to-end length theorem, range '
         'lemmas) + extracted-model differential run on the parser stream x '
         'option matrix + statement oracle + CLI --nums'),
 'C02': dict(
    text='partial. Theorems for every input: every scanner token that is not '
         'pinned holds exactly the source characters at its position (text, '
         'verbatim, \\verb, comments, macro names, special sequences), '
         'get_txt_pos reports for each character of such a token the offset '
         'where the source holds it, a special sequence is recognised and '
         'replaced at its first character; end to end through the expander '
         'for documents of plain text, undeclared control words, comments, '
         'braces and nested pass-through macros with braced arguments: the '
         'text tokens leave the expander with the character and position '
         'the scanner gave them, in order, and no other visible text is '
         'output (C02_text_keeps_its_place). Not a theorem: that the expander '
         'moves copied tokens unchanged (arguments, \\text in maths, '
         'footnotes); decided by the differential run and the copy oracle',
    ref='6/C02, 11.2', technique='Coq proof (scanner faithfulness, get_txt_pos) '
         '+ differential run + marker-word / copy oracle'),
 'C03': dict(
    text='partial. Theorems for every input: the removal of pure action '
         'lines keeps every non-blank character in order and invents none; '
         'the language split holds exactly text and positions of the stream; '
         'a macro use yields the body with each argument as often as named; '
         'plain documents (C06) and documents with undeclared control words, '
         'comments, braces and nested pass-through macros are conserved end '
         'to end through the main loop of the expander '
         '(C03_words_stay_markup_vanishes); text between paired LT-SKIP marks '
         'never reaches the expander, everything outside does, in order. Not a theorem: '
         'what each macro / environment / the maths parser keeps or hides; '
         'decided by the marker-word oracle and the differential run',
    ref='6/C03, 11.2', technique='Coq proof (conservation lemmas) + '
         'differential run + word / hidden-text oracle'),
 'C04': dict(
    text='partial. End to end for every document accepted by the computable '
         'test doc_in_class (plain text, special sequences, undeclared control '
         'words, comments, braces, nested pass-through macros, macros without '
         'arguments whose body is text): each visible token that parser_work '
         'returns is a scanner token at its own place, the tabulated text of '
         'a special sequence at the position of the sequence, or a body token '
         'of a macro pinned at the macro call '
         '(C04_generated_text_of_the_class). Theorems per generating step: tokens made for citations, '
         'theorem titles, headings (full stop), user macro bodies, inline '
         'formulas, simple-mode equations and error marks are pinned at the '
         'first token of the construct or at one of its argument tokens. Not '
         'a theorem: remaining handlers (cleveref unmodelled: oracle only) '
         'and that the positions handed to the steps are those of the '
         'construct; decided by the span oracle over every catalogue entry '
         'and the differential run',
    ref='6/C04, 11.2', technique='Coq proof (site theorems) + differential run '
         '+ span oracle over the catalogue'),
 'C05': dict(
    text='complete for the action-line pass on the model, partial end to end. '
         'Theorems for every token list: the pass terminates; its effect on '
         'the text is a sequence of deletions of a whole blank line (white '
         'space, then its line break) at the beginning of the text or directly '
         'behind a line break, or of trailing white space behind the last '
         'line break, nothing else; hence the list of words is unchanged (no '
         'two words glued, none split) and on the list of lines only blank '
         'lines disappear (no paragraph break invented); nothing is deleted '
         'where no markup vanished (source blank lines stay). '
         'Not a theorem: that exactly the emptied lines go and that every '
         'vanishing construct leaves an action token; decided by the layout '
         'enumerator with a TeX white-space reference and the differential run',
    ref='6/C05, 11.2', technique='Coq proof (work-list invariant: only blank '
         'lines deleted; words and non-blank lines conserved; totality) + '
         'layout enumerator + TeX reference oracle'),
 'C06': dict(
    text='first claim complete on the model: for every input without active '
         'characters, every language, package, class selection and fuel, '
         'tex2txt() returns the input with positions 1..n '
         '(C06_plain_prose_fixed_point, end to end through scanner, expander '
         'loop, action-line pass, get_txt_pos, wrapper; table obligations '
         're-proved on the generated tables). Second claim: longest match, '
         'copy of other characters and the replacement step are theorems, '
         'the table is compared with the documented one by computation, and '
         'end to end through the main loop for documents of plain text, '
         'special sequences, undeclared control words, comments, braces and '
         'nested pass-through macros each special sequence shows as its '
         'tabulated text at the position of the sequence '
         '(C06_specials_end_to_end); replacement files are outside the '
         'fixed-point theorem',
    ref='6/C06, 11.2', technique='Coq proof (end-to-end fixed point, longest '
         'match) + exhaustive small strings against model and table'),
 'C07': dict(
    text='partial. Theorems for every input: scanner, removal of pure action '
         'lines (the work-list loop whose termination is not evident), phrase '
         'replacement and multi-language split terminate within the fuel the '
         'model passes and return no exception; so does the main loop of the '
         'expander (and Parser.parser_work) on every token list / document of '
         'the class of C02 (plain text, special sequences, undeclared control '
         'words, comments, braces, nested pass-through macros; membership is '
         'decidable, the decision procedure is proved sound). Not a theorem: '
         'the same for the expander on arbitrary input; decided by the differential run of outcome classes '
         'on the malformed stream with a time limit per case; non-termination '
         'caused by self-calling or multiplying definitions of the document '
         'is classified as outside the claim by a counting re-run',
    ref='6/C07, 11.2', technique='Coq proof (totality of four passes; model with '
         'explicit exceptions and fuel) + malformed-input differential run'),
 'C08': dict(
    text='partial. Theorems: latex_error gives line and column of the '
         'position, the complete mark, pinned, first character at the '
         'position; scanner and expander record a diagnostic in the very step '
         'that makes a mark; plain text gives neither; end to end, a document '
         'of the class of C02 (decided by doc_in_class) runs through '
         'parser_work without any diagnostic: only the list of unknowns of '
         'the parser state changes. Not a theorem: that '
         'each detection site passes the position of the faulty construct and '
         'loses no text behind it; decided by the fault injector and the '
         'differential run (diagnostics and marks compared)',
    ref='6/C08, 11.2', technique='Coq proof (latex_error, mark/diagnostic '
         'pairing) + fault injector + differential run'),
 'C09': dict(
    text='partial. Theorems for every body and argument list: the '
         'replacement is the body with #n replaced by the n-th argument, in '
         'order; argument tokens unchanged, other tokens pinned inside the '
         'use; an undeclared name is not expanded; a macro with n mandatory '
         'arguments called with n braced groups collects exactly the groups, '
         'in order, and expands to the body with #k replaced by the k-th '
         'group, state untouched. Not a theorem: parsing of '
         'definition commands, optional and unbraced arguments, independence of the '
         'source of the definitions; decided by the definition-set generator '
         '(own TeX substitution semantics), route comparison and the '
         'differential run',
    ref='6/C09, 11.2', technique='Coq proof (substitution) + definition-set '
         'generator + route comparison'),
 'C10': dict(
    text='partial. Theorems: a formula that is one maths part becomes exactly '
         'one placeholder (head of the rotated inline collection of the '
         'current language) with optional blanks and final punctuation, all '
         'pinned at the first maths token; rotation is cyclic, the k-th '
         'formula gets entry k mod n, neighbours differ (collections of /repo '
         'checked by computation); through the loop of the maths parser: for '
         'every inline formula whose body holds no declared control word, '
         'environment or paragraph break (undeclared control words '
         'included), expand_inline_math returns exactly action token, '
         '[blank], placeholder, [punctuation], [blank], action token and '
         'leaves the text behind the closing delimiter untouched. Not a '
         'theorem: bodies with declared control words, \\text parts; decided by the '
         'formula enumerator and the differential run',
    ref='6/C10, 11.2', technique='Coq proof (one part, rotation) + formula '
         'enumerator + differential run'),
 'C11': dict(
    text='partial. Theorems: simple mode gives one placeholder plus final '
         'punctuation at the start of the equation; removed equation '
         'environments leave at most their punctuation; rotation lemmas as '
         'C10; full mode through the loop of the maths parser: an equation of '
         'one section whose body holds no declared control word and holds an '
         'element becomes two blanks, [blank], one placeholder of the display '
         'collection at the first element, [punctuation], [blank] between two '
         'action tokens. Not a theorem: the row/section scheme for several '
         'sections; '
         'decided by the equation enumerator with a structural oracle, exact '
         'placeholder sequence by the differential run',
    ref='6/C11, 11.2', technique='Coq proof (simple mode, removal) + equation '
         'enumerator + differential run'),
 'C12': dict(
    text='partial. Theorems for every token stream: language tokens only cut '
         'the stream (sections together = text and positions of the stream: '
         'each word in exactly one part, same words as the single-language '
         'run), every part has equal lengths and only positions of the '
         'stream, the split terminates without exception; the label for an '
         'insertion in running text, a hard switch and an insertion in the '
         'language in force; the threshold rule on three sections; the '
         'threshold pass on section lists of any length: every section in '
         'exactly one returned part, whole, in order, only inserted material '
         'between the sections of a part, one language per part, the table '
         'lists each part under its language. Not a theorem: '
         'the label under deeper nesting and which insertions the rule '
         'selects on longer lists; decided by the nested-language generator '
         'oracle and the differential run',
    ref='6/C12, 11.2', technique='Coq proof (conservation, positions, totality) '
         '+ nested-language generator + differential run'),
 'C17': dict(
    text='structural: the model is a function of document, options and files; '
         'the generated inventory of module-level state is an obligation '
         're-proved on every run; the implementation side is a differential '
         'check over call histories and server request sequences; one theorem '
         'about the parser object: a document of the class of C02 changes '
         'nothing of the parser state but the list of unknowns',
    ref='6/C17', technique='Coq obligation on generated inventory + history differential (fresh process vs sequence, HTTP)'),
 'C19': dict(
    text='partial. Theorems: the step that meets an undeclared macro outside '
         'maths appends its name unless listed (no repetition, order of first '
         'use), inside maths leaves the list alone, and never lists a declared '
         'name; end to end for documents of plain text, undeclared control '
         'words, comments, braces and nested pass-through macros the list is '
         'exactly the undeclared names, once each, in order of first use; '
         'environments at the site: \\begin{name} with an undeclared name in '
         'plain characters appends the name once (not in maths), \\end{name} '
         'records nothing. '
         'Not a theorem: that no other step touches the list and which '
         'uses the expander reaches; decided by the generator oracle, the '
         'differential run and the shell --list-unknown output',
    ref='6/C19, 11.2', technique='Coq proof (list discipline of the step) + '
         'differential run + generator oracle'),
}

NOT_YET = {}

def main():
    props = [json.loads(l) for l in open(os.path.join(HERE, 'properties.jsonl'))]
    checks = []
    na = []
    for p in props:
        pid = p['id']
        if pid in CHECKS:
            c = CHECKS[pid]
            checks.append({
                'property_id': pid,
                'quick_cmd': './check %s --tier quick' % pid,
                'thorough_cmd': './check %s --tier thorough' % pid,
                'evidence_file': 'evidence/%s.json' % pid,
                'replay_cmd_template': './check %s --replay {path}' % pid,
                'engine': 'coq-model',
                'level_claimed': {'category': 'proof', 'text': c['text'],
                                  'design_ref': c['ref']},
                'level_note': NOTE + ' ' + c.get('note', ''),
                'technique': c['technique'],
            })
        else:
            na.append({'property_id': pid,
                       'reason': NOT_YET.get(pid, 'check not built yet in this '
                                 'round (planned, see DESIGN.md section 6)')})
    m = {
        'version': 1,
        'setup_cmd': './setup.sh',
        'hooks': {
            'guard': 'YALAFI_VERIF',
            'enable': 'no hooks are needed: all observables are reached '
                      'through the public Python API and the command lines',
            'baseline_off_cmd': 'cd /repo && /venv/bin/python -m pytest -ra -q '
                                '-p no:cacheprovider --timeout=900 '
                                '--continue-on-collection-errors',
            'source_commits': [],
            'add_only': True,
        },
        'engines': [{
            'name': 'coq-model',
            'path': 'coq/',
            'serves_properties': sorted(CHECKS),
            'kind_free_text': 'Coq 8.16 development: executable Gallina model '
                              '(coq/model), proofs (coq/proofs, coq/props), '
                              'tables generated from /repo (coq/gen), '
                              'extraction to OCaml (driver/), Python harness',
        }],
        'checks': checks,
        'not_applicable': na,
        'notes': 'VERIF_SEED seeds the single PRNG of a run; VERIF_TIER '
                 'overrides --tier.',
    }
    with open(os.path.join(HERE, 'MANIFEST.json'), 'w') as f:
        json.dump(m, f, indent=1)

if __name__ == '__main__':
    main()
