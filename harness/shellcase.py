"""Helpers shared by the shell properties (C14, C15, C16): computing the parts
the shell submits, building proofreader answers, parsing the report formats,
encoding a case for the model (op `report`)."""
import html as _html
import json, re
import xml.etree.ElementTree as ET
import core
from yalafi import tex2txt

MODES = ['plain', 'json', 'xml', 'xml-b', 'html']
MODE_NUM = {'plain': 0, 'json': 1, 'xml': 2, 'xml-b': 3, 'html': 4, 'server': 5}


def shell_parts(tex, language='en-GB', multi=False, ml_continue=2,
                packages='*', **kw):
    """the parts run_proofreader_options() builds, in its order:
    list of (lang, plain, charmap); tex as the shell sees it"""
    if not tex.endswith('\n'):
        tex += '\n'
    opts = tex2txt.Options(char=True, repl=None, defs=kw.get('defs'),
                           lang=language, extr=None, unkn=False, seqs=False,
                           dcls='', pack=packages, nosp=False)
    if multi:
        def mod(parms):
            parms.ml_continue_thresh = ml_continue
        pm = tex2txt.tex2txt(tex, opts, multi_language=True, modify_parms=mod)
        parts = [(lang, p[0], list(p[1])) for lang in pm for p in pm[lang]]
    else:
        plain, cm = tex2txt.tex2txt(tex, opts)
        parts = [(language, plain, list(cm))]
    return tex, parts


def lt_match(plain, offset, length, rule='RULE_X', msg='Message.',
             repls=('fix',)):
    beg = max(0, offset - 20)
    end = min(len(plain), offset + length + 20)
    ctx = plain[beg:end].replace('\n', ' ')
    return {'message': msg, 'shortMessage': '', 'offset': offset,
            'length': length,
            'replacements': [{'value': r} for r in repls],
            'context': {'text': ctx, 'offset': offset - beg, 'length': length},
            'rule': {'id': rule, 'category': {'id': 'C', 'name': 'Category'},
                     'urls': [{'value': 'https://example.org/r'}]}}


# ---------------- JSON -> model encoding ----------------

BIG = 2 ** 60


def enc_json(v):
    if v is None:
        return '0'
    if isinstance(v, bool):
        return '1 %d' % (1 if v else 0)
    if isinstance(v, int):
        return '2 %d' % max(-BIG, min(BIG, v))
    if isinstance(v, float):
        return '3'
    if isinstance(v, str):
        return '4 ' + core.enc_str(v)
    if isinstance(v, list):
        return '5 ' + core.enc_list(v, enc_json)
    if isinstance(v, dict):
        return '6 ' + core.enc_list(list(v.items()),
                                    lambda kv: core.enc_str(kv[0]) + ' ' + enc_json(kv[1]))
    raise ValueError(v)


def decode_answer(b):
    """what run_languagetool does with the bytes; (ok, value)"""
    try:
        s = b.decode('utf-8')
        return True, json.JSONDecoder().decode(s)
    except Exception:
        return False, None


def model_line(mode, link, tex, parts, answers):
    """parts: (lang, plain, charmap); answers: bytes for each non-blank part
    in order (missing = no call made)"""
    items = []
    k = 0
    for lang, plain, cm in parts:
        if plain.strip():
            a = answers[min(k, len(answers) - 1)]
            if isinstance(a, dict):
                a = a.get(lang, a.get('*', b'{"matches": []}'))
            k += 1
            ok, val = decode_answer(a)
            ans = ('1 ' + enc_json(val)) if ok else '0'
        else:
            ans = '1 ' + enc_json({'matches': []})
        items.append('%s %s %s' % (core.enc_str(plain), core.enc_ints(cm), ans))
    return 'report %d %d %s %d %s' % (MODE_NUM[mode], 1 if link else 0,
                                      core.enc_str(tex), len(items),
                                      ' '.join(items))


def parse_model_report(out):
    r = core.Reader(out)
    tag = r.word()
    if tag == 'OK':
        n = r.int()
        locs = []
        for _ in range(n):
            locs.append(tuple(r.int() for _ in range(7)))
        return ('OK', locs)
    if tag == 'FATAL':
        return ('FATAL',)
    if tag == 'EXC':
        return ('EXC', r.word())
    return (tag,)


# ---------------- parsing the reports ----------------

def shell_outcome(r):
    if r.traceback:
        return 'EXC'
    if r.rc == 0:
        return 'OK'
    if r.rc == 1 and ('internal error' in r.err or 'problem' in r.err):
        return 'FATAL'
    return 'RC%d' % r.rc


def parse_plain(out):
    """[(line, column)]"""
    return [(int(a), int(b)) for a, b in
            re.findall(r'^\d+\.\) Line (\d+), column (\d+), Rule ID:', out, re.M)]


def parse_json(out):
    """[(offset, length, fromy, fromx, toy, tox)]"""
    res = []
    for m in json.loads(out)['matches']:
        p = m.get('priv', {})
        res.append((m['offset'], m['length'], p.get('fromy'), p.get('fromx'),
                    p.get('toy'), p.get('tox')))
    return res


def parse_xml(out):
    root = ET.fromstring(out)
    return [(int(e.get('fromy')), int(e.get('fromx')), int(e.get('toy')),
             int(e.get('tox'))) for e in root.findall('error')]


TAG = re.compile(r'<[^>]*>')


def html_cells(out):
    """rows of the big table: [(line number or None, cell html)]"""
    rows = re.findall(r'<tr>\n<td style="[^"]*" align="right" valign="top">'
                      r'(\d*)&nbsp;&nbsp;</td>\n<td>(.*?)</td>\n</tr>\n',
                      out, re.S)
    return [(int(n) if n else None, c) for n, c in rows]


def html_text(cell):
    s = TAG.sub('', cell)
    s = s.replace('&ensp;', ' ')
    return _html.unescape(s)


def html_highlights(cell):
    """texts of the highlighted spans of a cell"""
    out = []
    for m in re.finditer(r'<span style="[^"]*" title="[^"]*">(.*?)</span>',
                         cell, re.S):
        out.append(html_text(m.group(1)))
    return out


def linecol(tex, off):
    """1-based line and column of the 0-based offset"""
    return (tex.count('\n', 0, off) + 1, off - (tex.rfind('\n', 0, off) + 1) + 1)
