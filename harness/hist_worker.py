#!/venv/bin/python
"""runs a history of tex2txt() calls in ONE interpreter; reads a JSON list of
cases from stdin, prints a JSON list of results (one per call)"""
import json, os, sys
sys.path.insert(0, os.path.dirname(os.path.abspath(__file__)))
import core
sys.path.insert(0, core.REPO)
import parsecase, universe
import shutil, tempfile
base = os.path.join(core.BUILD, 'tmp')
os.makedirs(base, exist_ok=True)
work = tempfile.mkdtemp(prefix='hist', dir=base)
os.chdir(work)
for n, t in universe.FILES.items():
    with open(n, 'w', encoding='utf-8', newline='') as f:
        f.write(t)


def freeze(o, depth=0, seen=None):
    """a comparable picture of a module-level object"""
    import types
    seen = seen if seen is not None else set()
    if depth > 6 or id(o) in seen:
        return '...'
    if isinstance(o, (str, int, float, bool, bytes, type(None))):
        return o
    seen = seen | {id(o)}
    if isinstance(o, dict):
        return ('dict', sorted((repr(k), freeze(v, depth + 1, seen)) for k, v in o.items()))
    if isinstance(o, (list, tuple)):
        return (type(o).__name__, [freeze(v, depth + 1, seen) for v in o])
    if isinstance(o, (set, frozenset)):
        return ('set', sorted(repr(v) for v in o))
    if isinstance(o, (types.FunctionType, types.BuiltinFunctionType, types.ModuleType, type)):
        return ('ref', getattr(o, '__qualname__', getattr(o, '__name__', '?')))
    if hasattr(o, 'pattern') and hasattr(o, 'flags'):
        return ('re', o.pattern, o.flags)
    if hasattr(o, '__dict__'):
        return (type(o).__name__, freeze(vars(o), depth + 1, seen))
    return ('obj', type(o).__name__)


def snapshot():
    snap = {}
    for mn, m in list(sys.modules.items()):
        if not (mn == 'yalafi' or mn.startswith('yalafi.')) or m is None:
            continue
        for n, v in list(vars(m).items()):
            if n.startswith('__'):
                continue
            import types
            if isinstance(v, types.FunctionType):
                # default arguments are created once: a mutable default that a
                # call changes outlives the call like a module-level object
                if v.__module__ == mn and (v.__defaults__ or v.__kwdefaults__):
                    snap[mn + '.' + n + '.__defaults__'] = freeze(
                        (v.__defaults__, v.__kwdefaults__))
                continue
            if isinstance(v, type):
                if v.__module__ == mn:
                    for fn, f in list(vars(v).items()):
                        if isinstance(f, types.FunctionType) and (f.__defaults__ or f.__kwdefaults__):
                            snap['%s.%s.%s.__defaults__' % (mn, n, fn)] = freeze(
                                (f.__defaults__, f.__kwdefaults__))
                continue
            if isinstance(v, types.ModuleType):
                continue
            snap[mn + '.' + n] = freeze(v)
    return snap


hist = json.load(sys.stdin)
out = []
changed = []
before = snapshot()
for j in hist:
    c = parsecase.T2T.from_json(j)
    for n, t in (c.files or {}).items():
        with open(n, 'w', encoding='utf-8', newline='') as f:
            f.write(t)
    r = parsecase.run_t2t(c)
    out.append(r if r[0] != 'OK' else ['OK', r[1], r[2]])
    after = snapshot()
    for k in sorted(before):
        if k in after and after[k] != before[k] and k not in changed:
            changed.append(k)
    for k in after:
        before.setdefault(k, after[k])     # modules imported by this call
json.dump({'results': out, 'globals_changed': changed}, sys.stdout)
os.chdir(base)
shutil.rmtree(work, ignore_errors=True)
