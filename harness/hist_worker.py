#!/venv/bin/python
"""runs a history of tex2txt() calls in ONE interpreter; reads a JSON list of
cases from stdin, prints a JSON list of results (one per call)"""
import json, os, sys
sys.path.insert(0, os.path.dirname(os.path.abspath(__file__)))
import core
sys.path.insert(0, core.REPO)
import parsecase, universe
import shutil, tempfile
base = os.path.join(core.BUILD, 'tmp')
os.makedirs(base, exist_ok=True)
work = tempfile.mkdtemp(prefix='hist', dir=base)
os.chdir(work)
for n, t in universe.FILES.items():
    with open(n, 'w', encoding='utf-8', newline='') as f:
        f.write(t)
hist = json.load(sys.stdin)
out = []
for j in hist:
    c = parsecase.T2T.from_json(j)
    for n, t in (c.files or {}).items():
        with open(n, 'w', encoding='utf-8', newline='') as f:
            f.write(t)
    r = parsecase.run_t2t(c)
    out.append(r if r[0] != 'OK' else ['OK', r[1], r[2]])
json.dump(out, sys.stdout)
os.chdir(base)
shutil.rmtree(work, ignore_errors=True)
