"""Shared machinery of the checks: build of the Coq development and the
extracted model from /repo's current tree, running the model, verdict logic,
known findings, evidence."""
import fcntl, hashlib, json, os, random, re, subprocess, sys, time

VERIF = os.path.dirname(os.path.dirname(os.path.abspath(__file__)))
REPO = os.environ.get('YALAFI_REPO', '/repo')
COQ = os.path.join(VERIF, 'coq')
BUILD = os.path.join(VERIF, '_build')
PY = '/venv/bin/python'
NPROC = os.cpu_count() or 4

TRUSTED_BASE = [
    'Coq 8.16.1 kernel (coqc, full .vo build via coq_makefile; vm_compute for '
    'table obligations; no native_compute)',
    'no axioms declared; Print Assumptions output recorded per property',
    'extraction to OCaml with ExtrOcamlBasic only (Extract Inductive for bool, '
    'option, unit, list, prod, sumbool, sumor); nat/positive/N/Z inductive; '
    'ocamlfind ocamlopt; hand-written driver driver/run_model.ml',
    'translator harness/gen_tables.py (dumps tables of the running /repo code '
    'and CPython character classes into coq/gen/*.v)',
    'correspondence check: generators, canonicalisation and comparison in '
    'harness/ (differential testing, bounded by the generators)',
    'CPython (str, re, json, unicodedata, list.sort) is modelled, not verified',
]


def repo_env():
    env = dict(os.environ)
    env['PYTHONPATH'] = REPO
    env['PYTHONHASHSEED'] = '0'
    env['YALAFI_REPO'] = REPO
    return env


# --------------------------------------------------------------------------
#   build
# --------------------------------------------------------------------------

class Build:
    def __init__(self):
        self.ok = True
        self.gen_ok = True
        self.failed_files = []      # .v files that did not compile
        self.log = ''
        self.wall = 0.0

    def failed_in(self, files):
        bad = [f for f in self.failed_files if f in files]
        return bad


def _run(cmd, cwd=None, timeout=1800, env=None):
    p = subprocess.run(cmd, cwd=cwd, env=env, stdout=subprocess.PIPE,
                       stderr=subprocess.STDOUT, timeout=timeout)
    return p.returncode, p.stdout.decode('utf-8', 'replace')


def ensure_build():
    """regenerate coq/gen from /repo, make, extract, compile the driver.
    Serialised between concurrent checks with a file lock."""
    os.makedirs(BUILD, exist_ok=True)
    b = Build()
    t0 = time.time()
    with open(os.path.join(BUILD, '.lock'), 'w') as lock:
        fcntl.flock(lock, fcntl.LOCK_EX)
        rc, out = _run([PY, os.path.join(VERIF, 'harness', 'gen_tables.py')],
                       env=repo_env())
        b.log += out
        if rc != 0:
            b.ok = False
            b.gen_ok = False
            b.failed_files.append('gen/*')
        # handlers of /repo for which the translator has no model: only the
        # cleveref ones are expected (DESIGN.md section 8); anything else
        # means that the model no longer represents the code
        try:
            un = [x.strip() for x in open(os.path.join(COQ, 'gen', 'unmodelled.txt'))
                  if x.strip()]
        except OSError:
            un = []
        extra = [x for x in un if not x.startswith('yalafi.packages.cleveref.')]
        if extra:
            b.ok = False
            b.failed_files.append('gen/Catalogue.v')
            b.log += ('\n*** handlers of /repo without a model: %s\n' % ', '.join(extra))
        mk = os.path.join(COQ, 'Makefile')
        cp = os.path.join(COQ, '_CoqProject')
        if (not os.path.exists(mk)
                or os.path.getmtime(mk) < os.path.getmtime(cp)):
            _run(['coq_makefile', '-f', '_CoqProject', '-o', 'Makefile'],
                 cwd=COQ)
        rc, out = _run(['timeout', '3000', 'make', '-k', '-j%d' % NPROC],
                       cwd=COQ, timeout=3100)
        b.log += out
        if rc != 0:
            b.ok = False
            for m in re.finditer(r'File "\./([^"]+\.v)", line', out):
                if m.group(1) not in b.failed_files:
                    b.failed_files.append(m.group(1))
            # files that could not be built because a dependency failed
            for line in open(cp):
                line = line.strip()
                if line.endswith('.v') and not os.path.exists(
                        os.path.join(COQ, line + 'o')):
                    if line not in b.failed_files:
                        b.failed_files.append(line)
        # driver
        ml = os.path.join(BUILD, 'model.ml')
        drv_src = os.path.join(VERIF, 'driver', 'run_model.ml')
        exe = os.path.join(BUILD, 'run_model')
        if os.path.exists(ml):
            need = (not os.path.exists(exe)
                    or os.path.getmtime(exe) < os.path.getmtime(ml)
                    or os.path.getmtime(exe) < os.path.getmtime(drv_src))
            if need:
                subprocess.run(['cp', drv_src, BUILD])
                rc, out = _run(['ocamlfind', 'ocamlopt', '-O3', '-w', '-a',
                                'model.mli', 'model.ml', 'run_model.ml',
                                '-o', 'run_model'], cwd=BUILD)
                b.log += out
                if rc != 0:
                    b.ok = False
                    b.failed_files.append('driver/run_model.ml')
        else:
            b.ok = False
            b.failed_files.append('extract/Extract.v')
    b.wall = time.time() - t0
    return b


# --------------------------------------------------------------------------
#   proof obligations of a property: statements in the dependency cone
# --------------------------------------------------------------------------

STMT = re.compile(r'^\s*(?:Local\s+|Global\s+)?(Theorem|Lemma|Example|'
                  r'Corollary|Fact|Remark|Proposition)\s+([A-Za-z0-9_\']+)',
                  re.M)


def _v_path(mod):
    """YV.model.PyBase or PyBase -> relative path"""
    name = mod.split('.')[-1]
    for d in ('model', 'proofs', 'props', 'gen', 'extract'):
        p = os.path.join(d, name + '.v')
        if os.path.exists(os.path.join(COQ, p)):
            return p
    return None


def cone(vfile):
    """transitive 'From YV Require' closure of a .v file (relative paths)"""
    seen = []
    todo = [vfile]
    while todo:
        f = todo.pop()
        if f in seen:
            continue
        seen.append(f)
        try:
            src = open(os.path.join(COQ, f), encoding='utf-8').read()
        except OSError:
            continue
        for m in re.finditer(r'From\s+YV\s+Require\s+(?:Import|Export)\s+'
                             r'([^.]*(?:\.[A-Za-z][^.]*)*)\.\s', src):
            for mod in m.group(1).split():
                p = _v_path(mod)
                if p:
                    todo.append(p)
    return seen


def obligations(prop_vfile, build):
    files = cone(prop_vfile)
    total = 0
    done = 0
    names = []
    for f in files:
        try:
            src = open(os.path.join(COQ, f), encoding='utf-8').read()
        except OSError:
            continue
        src = re.sub(r'\(\*.*?\*\)', '', src, flags=re.S)
        n = STMT.findall(src)
        total += len(n)
        if f not in build.failed_files and os.path.exists(
                os.path.join(COQ, f + 'o')):
            done += len(n)
        if f.startswith('props/'):
            names += [x[1] for x in n]
    return files, total, done, names


def print_assumptions(prop_vfile):
    """re-run coqc on the property file (output to scratch) and return what
    its Print Assumptions commands print"""
    # (coqc -o wants the same base name: a scratch directory of its own)
    pad = os.path.join(BUILD, 'pa')
    os.makedirs(pad, exist_ok=True)
    out_vo = os.path.join(pad, os.path.basename(prop_vfile) + 'o')
    try:
        rc, out = _run(['timeout', '600', 'coqc', '-Q', '.', 'YV', '-o',
                        out_vo, prop_vfile], cwd=COQ, timeout=700)
    except Exception as e:
        return 'coqc failed: %r' % e
    for ext in ('', 's', 'k'):
        try:
            os.remove(out_vo + ext)
        except OSError:
            pass
    try:
        os.remove(os.path.join(pad, os.path.basename(prop_vfile)[:-2] + '.glob'))
    except OSError:
        pass
    return out.strip()


# --------------------------------------------------------------------------
#   running the extracted model
# --------------------------------------------------------------------------

def enc_list(items, f):
    out = [str(len(items))]
    for x in items:
        out.append(f(x))
    return ' '.join(out)


def enc_str(s):
    return enc_list(s, lambda c: str(ord(c)))


def enc_ints(l):
    return enc_list(l, str)


class Reader:
    def __init__(self, line):
        self.t = line.split()
        self.i = 0

    def word(self):
        w = self.t[self.i]
        self.i += 1
        return w

    def int(self):
        return int(self.word())

    def list(self, f):
        n = self.int()
        return [f() for _ in range(n)]

    def str(self):
        return ''.join(chr(c) for c in self.list(self.int))

    def ints(self):
        return self.list(self.int)

    def bool(self):
        return self.int() != 0


def run_model(lines, shards=None):
    """feed case lines to the extracted model, return output lines"""
    exe = os.path.join(BUILD, 'run_model')
    if not lines:
        return []
    shards = shards or min(NPROC, max(1, len(lines) // 200))
    chunks = [lines[i::shards] for i in range(shards)]
    procs = []
    for ch in chunks:
        p = subprocess.Popen(['bash', '-c', 'ulimit -s unlimited; exec '
                              + exe], stdin=subprocess.PIPE,
                             stdout=subprocess.PIPE)
        procs.append(p)
    # write in threads to avoid pipe deadlock
    import threading
    outs = [None] * shards

    def work(k):
        data = ('\n'.join(chunks[k]) + '\n').encode('ascii')
        o, _ = procs[k].communicate(data)
        outs[k] = o.decode('ascii').split('\n')
    ths = [threading.Thread(target=work, args=(k,)) for k in range(shards)]
    for t in ths:
        t.start()
    for t in ths:
        t.join()
    res = [None] * len(lines)
    for k in range(shards):
        n = len(chunks[k])
        got = outs[k][:n]
        if len(got) < n or (outs[k][n:] not in ([''], [])):
            got = got + ['CRASH'] * (n - len(got))
        for j, o in enumerate(got):
            res[k + j * shards] = o
    return res


# --------------------------------------------------------------------------
#   known findings
# --------------------------------------------------------------------------

def load_findings(pid):
    p = os.path.join(VERIF, 'known_findings.json')
    try:
        data = json.load(open(p, encoding='utf-8'))
    except OSError:
        return []
    return [f for f in data.get('findings', []) if f.get('property') == pid]


# --------------------------------------------------------------------------
#   result of a property run, verdict, evidence
# --------------------------------------------------------------------------

class Result:
    def __init__(self, pid):
        self.pid = pid
        self.evaluations = 0
        self.nontrivial = set()     # digests of distinct non-trivial cases
        self.rule = ''
        self.samples = []
        self.disagreements = []     # (stream, case, impl, model)
        self.failures = []          # (key, case(dict), what)  oracle failures
        self.distribution = {}
        self.extra = {}
        self.streams = {}

    def count(self, stream, case_repr, nontrivial=True):
        self.evaluations += 1
        self.streams[stream] = self.streams.get(stream, 0) + 1
        if nontrivial:
            self.nontrivial.add(hashlib.blake2b(
                repr(case_repr).encode('utf-8', 'surrogatepass'),
                digest_size=8).digest())

    def sample(self, case, limit=6):
        if len(self.samples) < limit:
            self.samples.append(case)

    def dist(self, key, n=1):
        self.distribution[key] = self.distribution.get(key, 0) + n


def write_replay(pid, payload):
    d = os.path.join(VERIF, 'replays')
    os.makedirs(d, exist_ok=True)
    h = hashlib.blake2b(json.dumps(payload, sort_keys=True).encode(),
                        digest_size=5).hexdigest()
    path = os.path.join(d, '%s-%s.json' % (pid, h))
    with open(path, 'w', encoding='utf-8') as f:
        json.dump(payload, f, indent=1, sort_keys=True)
    return path


def finish(pid, tier, seed, t0, build, res, prop_vfile, level_text=''):
    """apply the verdict logic of DESIGN.md section 5, write evidence,
    print VIOLATION / KNOWN-FINDING lines, return exit status"""
    files, total, done, thm_names = obligations(prop_vfile, build)
    proof_broken = build.failed_in(files) or total != done or total == 0
    known = load_findings(pid)
    open_keys = {f['key']: f for f in known if f.get('status') == 'open'}
    status = 0
    violations = 0
    seen_keys = set()
    for key, case, what in res.failures:
        if key in seen_keys:
            continue
        seen_keys.add(key)
        if key in open_keys:
            print('KNOWN-FINDING: property=%s %s' % (pid, open_keys[key]['what']))
            continue
        path = write_replay(pid, {'property': pid, 'kind': 'failing-input',
                                  'key': key, 'case': case, 'what': what})
        print('VIOLATION property=%s replay=%s' % (pid, path))
        violations += 1
        status = 1
        if violations >= 5:
            break
    if violations == 0 and (proof_broken or res.disagreements):
        # nothing in the failure list that is not a known finding
        payload = {'property': pid, 'kind': 'no-failing-input-found'}
        if proof_broken:
            payload['broken_obligations'] = {
                'files_not_compiled': build.failed_in(files) or
                [f for f in files if not os.path.exists(
                    os.path.join(COQ, f + 'o'))],
                'theorems_of_property_file': thm_names,
                'log_tail': build.log[-3000:]}
        if res.disagreements:
            payload['correspondence'] = [
                {'stream': s, 'case': c, 'impl': i, 'model': m}
                for (s, c, i, m) in res.disagreements[:5]]
        path = write_replay(pid, payload)
        print('VIOLATION property=%s replay=%s no-failing-input-found'
              % (pid, path))
        violations += 1
        status = 1

    pa = print_assumptions(prop_vfile) if not proof_broken else 'not run'
    if 'Axioms:' in pa:
        # a property theorem rests on an axiom: it is not proved any more
        path = write_replay(pid, {'property': pid, 'kind': 'no-failing-input-found',
                                  'broken_obligations': {
                                      'axioms_under_property_theorems': pa[-3000:]}})
        print('VIOLATION property=%s replay=%s no-failing-input-found' % (pid, path))
        violations += 1
        status = 1
    cov = {
        'obligations': total,
        'discharged': done,
        'checker_cmd': 'cd coq && coq_makefile -f _CoqProject -o Makefile && '
                       'make -j%d   (coqc 8.16.1, full .vo build)' % NPROC,
        'trusted_base': TRUSTED_BASE,
        'evaluations': res.evaluations,
        'distinct_nontrivial': len(res.nontrivial),
        'rule': res.rule,
        'samples': res.samples[:8],
        'files_in_cone': files,
        'theorems_of_property_file': thm_names,
        'print_assumptions': pa[-4000:],
        'print_assumptions_closed': pa.count('Closed under the global context'),
        'print_assumptions_axioms': pa.count('Axioms:'),
        'correspondence_disagreements': len(res.disagreements),
        'oracle_failures': len(res.failures),
        'streams': res.streams,
        'input_distribution': res.distribution,
        'build_wall_s': round(build.wall, 1),
    }
    cov.update(res.extra)
    ev = {
        'property_id': pid,
        'tier': tier,
        'seed': seed,
        'level': 'proof',
        'coverage': cov,
        'assumptions': [
            'the theorems are about the hand-written Gallina model in '
            'coq/model; the tie to /repo is the regenerated coq/gen tables '
            'plus the differential correspondence run counted above',
        ] + res.extra.get('assumptions_extra', []),
        'wall_s': round(time.time() - t0, 2),
        'violations': violations,
    }
    cov.pop('assumptions_extra', None)
    os.makedirs(os.path.join(VERIF, 'evidence'), exist_ok=True)
    with open(os.path.join(VERIF, 'evidence', pid + '.json'), 'w',
              encoding='utf-8') as f:
        json.dump(ev, f, indent=1, ensure_ascii=True)
    print('%s %s: obligations %d/%d, cases %d (distinct non-trivial %d), '
          'disagreements %d, oracle failures %d, %.1fs'
          % (pid, tier, done, total, res.evaluations, len(res.nontrivial),
             len(res.disagreements), len(res.failures), time.time() - t0))
    return status


def load_corpus(pid):
    """minimised regression inputs: corpus/<pid>/*.json, each a case (dict)
    or a list of cases"""
    d = os.path.join(VERIF, 'corpus', pid)
    out = []
    try:
        names = sorted(os.listdir(d))
    except OSError:
        return out
    for n in names:
        if n.endswith('.json'):
            v = json.load(open(os.path.join(d, n), encoding='utf-8'))
            out += v if isinstance(v, list) else [v]
    return out
