"""C01 -- every output character has exactly one source position, inside the
source.

Correspondence: tex2txt.tex2txt of /repo vs the extracted model (scanner,
expander, blank-line pass, get_txt_pos, phrase replacement, language
splitting) on the parser stream x option matrix; oracle = the statement."""
import os, random
import core, parsecase, universe, shellrun

PROP_FILE = 'props/C01.v'


def project(r):
    if r[0] != 'OK':
        return (r[0],)
    # lengths and positions of every returned text
    return ('OK', [(lang, len(t), p) for lang, t, p in universe.texts_of(r)])


def oracle(c, d, kind, im):
    if im[0] == 'EXC':
        return None        # C07
    if im[0] != 'OK':
        return None
    n = len(c.latex)
    for lang, t, p in universe.texts_of(im):
        if len(t) != len(p):
            return 'text of %d characters with %d positions' % (len(t), len(p))
        if c.unkn:
            continue
        bad = [x for x in p if not (1 <= x <= n)]
        if bad:
            return ('position %d outside 1..%d (%d characters affected), part %r'
                    % (bad[0], n, len(bad), lang))
    return None


DIRECTED = [
    # (latex, options): earlier findings and boundary shapes
    ('\\newcommand{\\x}{   \n }A\n\\label{l}\\x', {}),
    ('x', {'defs': '\\newcommand{\\y}{Y} \\footnote{abc def ghi}\n'}),
    ('\\newcommand{\\x}{\\verb|abcdefgh|}A \\x', {}),
    ('\\newcommand{\\x}{\\begin{verbatim}abcdefgh\\end{verbatim}}A \\x', {}),
    ('\\newacronym{a}{b}{\u0390}', {}),
    ('\\newcommand{\\x}[1]{#1\\]}\\x a', {}),
    ('abc \\verb|xy', {}), ('abc \\verb', {}), ('a \\begin{verbatim} xx', {}),
    ('\\LTinput{empty.tex} A $x', {}),
    ('A \\LTinput{empty.tex}\nB \\section{open', {}),
    ('wort und so weiter', {'repl': ['und so & a\\\\b \\t c']}),
    ('so dass', {'repl': ['so dass & x\\1y']}),
    ('', {}), ('\\', {}), ('$', {}), ('{', {}), ('\\begin', {}),
    # a macro that defines a macro, called in the definition text / in a file
    # longer than the source: the text of the inner macro maps into the source
    ('A \\term B', {'defs': '% ' + 'x' * 300 + '\n\\newcommand{\\mkterm}{\\newcommand{\\term}{some long text}}\n'
                               '\\mkterm\n'}),
    ('\\LTinput{mk.tex}A \\term B \\termb{q}', {'files': {
        'mk.tex': '% ' + 'y' * 300 + '\n\\newcommand{\\mkterm}{\\newcommand{\\term}{inner text}'
                  '\\newcommand{\\termb}[1]{<>}}\n\\mkterm\n'}}),
    ('A \\term B', {'defs': '% ' + 'z' * 300 + '\n\\def\\mkterm{\\def\\term{deftext here}}\\mkterm\n'}),
    # short insertions that start with white space (multi-language mode)
    ('\\usepackage{babel}Hello \\foreignlanguage{german}{  Welt} and more text here.',
     {'multi': True, 'lang': 'en-GB'}),
    ('\\usepackage{babel}Hello \\foreignlanguage{german}{\n\t Welt} and more text here.',
     {'multi': True, 'lang': 'en-GB'}),
    ('\\usepackage{babel}Hello\n\\begin{otherlanguage}{german}\n\n  Welt da\n\\end{otherlanguage}\nand more.',
     {'multi': True, 'lang': 'en-GB'}),
    ('\\usepackage{babel}Hello \\foreignlanguage{german}{   } and \\foreignlanguage{german}{ \n } more.',
     {'multi': True, 'lang': 'en-GB'}),
]


def cli_sample(rng, res, n):
    """python -m yalafi --nums: one number per character written to stdout"""
    from gens import docs
    for i in range(n):
        d = docs.gen_doc(rng, lang=False)
        rc, out, err, files = shellrun.run_filter(
            ['--nums', 'nums.txt', 'in.tex'], files={'in.tex': d.text})
        res.count('cli', ('cli', d.text))
        nums = files.get('nums.txt', '')
        k = len([l for l in nums.split('\n') if l])
        if rc != 0 or k != len(out):
            res.failures.append(('cli:%r' % d.text, {'latex': d.text, 'cli': True},
                                 'exit %d, %d numbers for %d characters'
                                 % (rc, k, len(out))))
        else:
            bad = [int(x.rstrip('+')) for x in nums.split() if not
                   (1 <= int(x.rstrip('+')) <= len(d.text))]
            if bad:
                res.failures.append(('cli:%r' % d.text, {'latex': d.text, 'cli': True},
                                     '--nums entry %d outside the source' % bad[0]))


def cli_boundaries(res):
    """the --nums file at the boundaries: empty output, one character, output
    longer than any block size a writer might use, input without final line
    break; one number per character of stdout, each inside the source"""
    from yalafi import tex2txt
    texts = ['', '% only a comment\n', 'x', 'x\n', 'Word \\textbf{two} three.',
             ' '.join('w%d' % i for i in range(4000)) + '\n',
             '\n\n'.join('Absatz %d mit Text.' % i for i in range(1500))]
    for t in texts:
        rc, out, err, files = shellrun.run_filter(['--nums', 'nums.txt', 'in.tex'],
                                                  files={'in.tex': t})
        res.count('cli-boundary', ('cli-boundary', t[:40], len(t)), nontrivial=len(t) > 100)
        key = 'cli-boundary:%r:%d' % (t[:40], len(t))
        case = {'latex': t if len(t) < 300 else t[:300] + '...', 'length': len(t), 'cli': True}
        nums = files.get('nums.txt')
        if rc != 0 or nums is None:
            res.failures.append((key, case, 'exit %d, --nums file %s' % (rc, 'missing' if nums is None else 'there')))
            continue
        lines = nums.split('\n')
        if lines and lines[-1] == '':
            lines = lines[:-1]
        api = tex2txt.tex2txt(t, tex2txt.Options())
        if out != api[0]:
            res.failures.append((key, case, 'standard output differs from the text of tex2txt(): '
                                 '%d / %d characters, tails %r / %r'
                                 % (len(out), len(api[0]), out[-20:], api[0][-20:])))
        elif len(lines) != len(out) or any(not x.rstrip('+').isdigit() for x in lines):
            res.failures.append((key, case, '%d lines in the --nums file for %d characters '
                                 '(first odd line: %r)' % (len(lines), len(out),
                                 next((x for x in lines if not x.rstrip('+').isdigit()), None))))
        elif [x for x in lines if not 1 <= int(x.rstrip('+')) <= max(1, len(t))]:
            res.failures.append((key, case, '--nums entry outside the source'))


def cli_mula_sample(rng, res, n):
    """python -m yalafi --mula out --nums nums: one pair of files per text
    part; one number per character, each inside the source; the API gives the
    same parts"""
    from gens import docs
    from yalafi import tex2txt
    for i in range(n):
        d = docs.gen_doc(rng, lang=True)
        lang = rng.choice(['en-GB', 'de-DE'])
        rc, out, err, files = shellrun.run_filter(
            ['--mula', 'out', '--nums', 'nums', '--lang', lang, 'in.tex'],
            files={'in.tex': d.text})
        res.count('cli-mula', ('cli-mula', d.text, lang))
        key = 'cli-mula:%r:%s' % (d.text, lang)
        case = {'latex': d.text, 'lang': lang, 'cli': 'mula'}
        if rc != 0:
            res.failures.append((key, case, 'exit %d: %s' % (rc, err[-200:])))
            continue
        texts = {k[4:]: v for k, v in files.items() if k.startswith('out.')}
        nums = {k[5:]: v for k, v in files.items() if k.startswith('nums.')}
        if set(texts) != set(nums):
            res.failures.append((key, case, 'text files %r, number files %r'
                                 % (sorted(texts), sorted(nums))))
            continue
        bad = None
        for k in texts:
            ns = [int(x.rstrip('+')) for x in nums[k].split()]
            if len(ns) != len(texts[k]):
                bad = 'part %s: %d numbers for %d characters' % (k, len(ns), len(texts[k]))
            elif [x for x in ns if not 1 <= x <= len(d.text)]:
                bad = 'part %s: number outside the source' % k
        try:
            ml = tex2txt.tex2txt(d.text, tex2txt.Options(lang=lang, pack='*'), multi_language=True)
            api = {'%d.%s' % (nr + 1, lg): p[0] for lg in ml for nr, p in enumerate(ml[lg])}
            if api != texts and not bad:
                bad = 'parts written %r differ from the parts of the API %r' % (
                    sorted(texts), sorted(api))
        except BaseException as e:
            bad = bad or 'API: %r' % e
        if bad:
            res.failures.append((key, case, bad))


def run(tier, seed, build, res):
    rng = random.Random(seed)
    res.rule = ('parser stream: grammar documents (gens/docs.py), prefixes, '
                'deletions, insertions, token soup x options (lang, pack, dcls, '
                'defs, extr, seqs, nosp, repl, unkn, multi-language, '
                'threshold); directed boundary inputs; --nums at the command '
                'line; non-trivial = a result with at least one character')
    n = 600 if tier == 'quick' else 20000
    cases = list(universe.gen_cases(rng, n))
    for latex, o in DIRECTED:
        o = dict(o)
        fs = dict(universe.FILES)
        extra = o.pop('files', {})
        fs.update(extra)
        for n_, t_ in extra.items():
            # the implementation reads \LTinput files from the working directory
            with open(os.path.join(universe.scratch_dir(), n_), 'w', encoding='utf-8', newline='') as f_:
                f_.write(t_)
        cases.append((parsecase.T2T(latex, files=fs, **o), None, 'directed'))
    for j in core.load_corpus('C01'):
        cases.append((parsecase.T2T.from_json(j), None, 'corpus'))
    for i in range(0, len(cases), 2000):
        universe.run(cases[i:i + 2000], res, 'parser', project, oracle,
                     sample_rule=lambda c, im: any(t for _, t, _ in universe.texts_of(im)))
    cli_sample(rng, res, 3 if tier == 'quick' else 30)
    cli_mula_sample(rng, res, 3 if tier == 'quick' else 30)
    cli_boundaries(res)


def replay(payload, build, res):
    j = payload.get('case') or {}
    if 'latex' not in j or j.get('cli'):
        return False
    universe.run([(parsecase.T2T.from_json(j), None, 'replay')], res, 'replay',
                 project, oracle)
    return not res.disagreements
