"""C19 -- the unknowns list names exactly the undeclared macros/environments
used in text.

Correspondence: list of unknowns (tex2txt with unkn, Parser.get_unknowns) vs
the model; oracle: the generator knows which undeclared names it used in text
and which only in maths, comments, skip regions; the shell's --list-unknown
prints the same list, one name per line."""
import random, re
import core, parsecase, universe, shellrun

PROP_FILE = 'props/C19.v'

TRACKED = ['\\unkgl', '\\unkgd', '\\ulatea', '\\ulateb', '\\unkd', '\\unka', '\\unkb', '\\unkc', '\\unkz', '\\mun', '\\muo', 'my block',
           'blockx', 'my  env', '\\foo']


def project(r):
    if r[0] != 'OK':
        return (r[0],)
    res = r[1]
    if res[0] == 'S':
        return ('OK', res[1])
    return ('OK',)


def expected(d, nosp=False):
    out = []
    for i, (name, in_math) in enumerate(d.unk):
        # (with --nosp, \\LTadd drops its argument as LaTeX does)
        if nosp and i in d.unk_ltadd:
            continue
        if not in_math and name not in out:
            out.append(name)
    return out


def oracle(c, d, kind, im):
    if im[0] != 'OK' or not c.unkn or c.multi:
        return None
    txt = im[1][1]
    if txt != '' and not txt.endswith('\n'):
        return 'list does not end with a line break'
    names = txt.split('\n')[:-1] if txt else []
    # (an environment name that holds a paragraph break -- malformed input --
    # spreads over several lines of the list; empty lines are not names)
    names = [n for n in names if n]
    # (a name holding a line break reads as two lines of the list)
    broken = re.search(r'\\(begin|end)\s*\{[^{}]*\n', c.latex) is not None
    if len(set(names)) != len(names) and not broken:
        return 'a name is listed twice: %r' % names
    if d is not None and kind == 'doc':
        # (without the glossaries package a .glsdefs file read by \\LTinput is
        # plain text, the macros in its entries are then used in text)
        nogls = '\\usepackage{glossaries}' not in c.latex
        got = [n for n in names if n in TRACKED
               and not (c.nosp and n == '\\foo')
               and not (nogls and n in ('\\unkgl', '\\unkgd'))]
        want = expected(d, c.nosp)
        if got != want:
            return ('undeclared names used in text, in order of first use: %r; '
                    'listed: %r' % (want, got))
        declared = ['\\um', '\\umm', '\\umo', '\\ua', '\\label', '\\section',
                    '\\footnote', 'thm', 'itemize', 'equation']
        for n in names:
            if n in declared:
                return 'declared name %r is listed' % n
    return None


TEXT_ENVS = ['subequations', 'center', 'quote', 'quotation', 'abstract', 'minipage',
             'figure', 'table', 'flushleft', 'flushright', 'description', 'itemize',
             'enumerate', 'proof', 'titlepage', 'frame', 'multicols', 'otherlanguage',
             'thebibliography', 'verse', 'small', 'appendix']


def text_env_stream(res):
    """environments whose body LaTeX typesets as text: an undeclared macro in
    the body is used in text and has to be listed, with every package set"""
    for env in TEXT_ENVS:
        arg = '{german}' if env == 'otherlanguage' else ('{9}' if env == 'thebibliography' else '')
        tex = ('Start \\begin{%s}%s Text \\unkenva here\n\\begin{equation} a = \\unkmath \\end{equation}\n'
               'more \\unkenvb text\n\\end{%s} end \\unkenvc.\n' % (env, arg, env))
        for pack in ('*', '', 'amsmath', 'amsmath,amsthm,babel'):
            c = parsecase.T2T(tex, lang='en', pack=pack, unkn=True, files={})
            im = parsecase.run_t2t(c)
            res.count('text-envs', c.key())
            if im[0] != 'OK':
                continue
            names = [n for n in im[1][1].split('\n') if n]
            want = ['\\unkenva', '\\unkenvb', '\\unkenvc']
            got = [n for n in names if n in want]
            if got != want or '\\unkmath' in names:
                res.failures.append(('c19-env:%s:%s' % (env, pack), c.json(),
                                     'environment %s (packages %r): names used in its text %r, '
                                     'listed %r' % (env, pack, want, names)))


def declared_stream(res):
    """names the document declares itself are not listed, whatever form the
    declaration takes"""
    for tex, unknown in (
            ('\\newtheorem*{rem}{Remark}\n\\begin{rem} Text \\foo \\end{rem}\n', ['\\foo']),
            ('\\newtheorem{thm}{Theorem}[section]\\newtheorem{lem}[thm]{Lemma}\n'
             '\\begin{thm} A \\end{thm}\\begin{lem} B \\end{lem} \\foo\n', ['\\foo']),
            ('\\newcommand*{\\ma}{x}\\renewcommand*{\\mb}[1]{#1}\\def\\mc{y} \\ma \\mb{z} \\mc \\foo\n',
             ['\\foo'])):
        for pack in ('*', ''):
            c = parsecase.T2T(tex, lang='en', pack=pack, unkn=True, files={})
            im = parsecase.run_t2t(c)
            res.count('declared', c.key())
            names = [n for n in im[1][1].split('\n') if n] if im[0] == 'OK' else [repr(im[:2])]
            if names != unknown:
                res.failures.append(('c19-declared:%r:%s' % (tex, pack), c.json(),
                                     'undeclared names used: %r, listed: %r' % (unknown, names)))


def package_list_stream(res):
    """a package of the document counts as loaded however its name is written
    in the list of \\usepackage: blanks, tabs, line breaks
    and comments around the names, the closing brace on a line of its own,
    several lists; the macros it declares are not listed, an undeclared
    name behind them is.  With pack='' only the document loads packages."""
    uses = [('xcolor', '\\textcolor{red}{x}'), ('graphicx', '\\includegraphics{f}'),
            ('amsmath', '\\eqref{e}'), ('hyperref', '\\url{u}')]
    lists = ['{%s,%s}', '{ %s , %s }', '{\n  %s,\n  %s\n}', '{%s ,%s\t}', '{%s,%s\n}',
             '{%%\n  %s,%%\n  %s%%\n}', '{%s, %s }', '{\t%s,\n%s \n }', '[opt]{%s ,\n %s\n}']
    cases, want = [], {}
    for cmd in ('\\usepackage',):
        for lay in lists:
            for (p1, u1), (p2, u2) in ((uses[0], uses[1]), (uses[2], uses[3]), (uses[1], uses[2])):
                tex = cmd + (lay % (p1, p2)) + '\nAlpha ' + u1 + ' beta ' + u2 + ' \\foo gamma.\n'
                for pack in ('', '*'):
                    c = parsecase.T2T(tex, lang='en', pack=pack, unkn=True, files={})
                    want[(tex, pack)] = ['\\foo']
                    cases.append((c, None, 'pkglist'))

    def oracle_pk(c, d, kind, im):
        w = want.get((c.latex, c.pack))
        if w is None or im[0] != 'OK':
            return None
        names = [n for n in im[1][1].split('\n') if n]
        if names != w:
            return ('packages loaded by the document declare the macros used; undeclared '
                    'names used in text: %r, listed: %r' % (w, names))
        return None
    universe.run(cases, res, 'pkglist', project, oracle_pk)


def glossary_stream(res):
    """glossary entries whose text holds an undeclared macro: every way of
    referring to the entry uses that macro in text, under its own name"""
    from gens import docs
    pre = '\\usepackage{glossaries}\\LTinput{main.glsdefs}\n'
    for body, want in (('\\gls{mu} A', ['\\unkgl']), ('\\Gls{mu} A', ['\\unkgl']),
                       ('\\GLS{mu} A', ['\\unkgl']), ('\\GLSpl{mu} A \\glspl{mu}', ['\\unkgl']),
                       ('\\GLSdesc{mu} A', ['\\unkgd']), ('\\glsdesc{mu} \\GLS{mu}', ['\\unkgd', '\\unkgl']),
                       ('\\GLS{pp} \\GLS{ex}', [])):
        c = parsecase.T2T(pre + body + '\n', lang='en', pack='*', unkn=True,
                          files={'main.glsdefs': docs.GLSDEFS})
        universe.scratch_dir()
        with open('main.glsdefs', 'w') as f:
            f.write(docs.GLSDEFS)
        im = parsecase.run_t2t(c)
        res.count('glossary', c.key())
        names = [n for n in im[1][1].split('\n') if n] if im[0] == 'OK' else [repr(im[:2])]
        if names != want:
            res.failures.append(('c19-gls:%r' % body, c.json(),
                                 'undeclared names used through the glossary: %r, listed: %r'
                                 % (want, names)))
        mo = parsecase.parse_model_t2t(core.run_model([parsecase.model_line_t2t(c)])[0])
        if project(im) != project(mo):
            res.disagreements.append(('glossary', c.json(), repr(project(im))[:300],
                                      repr(project(mo))[:300]))


def repl_stream(res):
    """a replacement list never rewrites the list of names"""
    from yalafi import tex2txt
    tex = 'A \\iid B \\foo C \\begin{document}D\\end{document} \\xq\n'
    for repl in (['iid & independent'], ['foo &'], ['document & text', 'xq & y'], None):
        c = parsecase.T2T(tex, lang='en', pack='*', unkn=True, repl=repl, files={})
        im = parsecase.run_t2t(c)
        res.count('unkn+repl', c.key())
        want = '\\iid\n\\foo\ndocument\n\\xq\n'
        if im[0] != 'OK' or im[1][1] != want:
            res.failures.append(('c19-repl:%r' % (repl,), c.json(),
                                 'list with replacement file %r: %r, expected %r'
                                 % (repl, im[1][1] if im[0] == 'OK' else im[:2], want)))


def shell_stream(rng, res, n):
    docs_ = ['A \\unka B \\begin{my block} C \\end{my block} $\\mun$ \\unka\n',
             '\\unkb{x} % \\foo\n\\begin{blockx}\\end{blockx} \\textbf{y}\n',
             'nothing unknown here $\\alpha$\n']
    def one(tex):
        return tex, shellrun.run_shell({'t.tex': tex}, ['--list-unknown', 't.tex'])
    for tex, r in shellrun.pmap(one, docs_[:n]):
        res.count('shell', ('shell', tex))
        c = parsecase.T2T(tex, unkn=True, lang='en-GB', files={})
        im = parsecase.run_t2t(c)
        want = im[1][1] if im[0] == 'OK' else None
        out = r.out.decode('utf-8')
        body = out.split('=== t.tex ===\n', 1)[1] if '=== t.tex ===\n' in out else out
        if not want.split():
            ok = out == ''
        else:
            ok = body == want
        if r.rc != 0 or r.traceback or not ok:
            res.failures.append(('c19-shell:%r' % tex, {'latex': tex, 'shell': True},
                                 '--list-unknown prints %r, the filter lists %r'
                                 % (out, want)))


def history_stream(res):
    """the list is about the document at hand: what an earlier document of
    the same process declared (theorems, macros, glossary entries, packages)
    is not declared for the next one"""
    from props import c17
    docs_ = [
        '\\newtheorem{thm}{Theorem}\\begin{thm}T\\end{thm} \\newcommand{\\foo}{F} \\foo',
        '\\documentclass{article}\\begin{thm}U\\end{thm} \\foo \\bar',
        '\\usepackage{xcolor}\\textcolor{red}{x} \\newenvironmentx \\begin{thm}V\\end{thm}',
        '\\documentclass{book}\\usepackage{geometry}\\begin{thm}W\\end{thm}\\begin{lem}X\\end{lem} \\foo',
        '\\newtheorem{lem}[thm]{Lemma}\\begin{lem}Y\\end{lem} \\bar',
    ]
    pool = [c17.mk({'latex': t, 'unkn': True, 'pack': pk}) for t in docs_ for pk in ('*', '')]
    alone = [c17.run_history([j]) for j in pool]
    order = list(range(len(pool)))
    hists = [order, order[::-1], order[::2] + order[1::2]]
    for h in hists:
        r, e = c17.run_history([pool[i] for i in h])
        res.count('history', tuple(h), nontrivial=True)
        if r is None:
            res.failures.append(('c19-history', {'history': [pool[i] for i in h]}, 'worker failed: ' + e))
            continue
        for k, i in enumerate(h):
            a = alone[i][0]
            if a is None:
                continue
            if c17.norm(r[k]) != c17.norm(a[0]):
                res.failures.append((
                    'c19-history:%d' % i, {'history': [pool[x] for x in h[:k + 1]], 'call': k},
                    'the list of unknowns of %r after %d other documents is %r, alone in a fresh '
                    'process %r' % (pool[i]['latex'][:60], k, str(r[k])[:200], str(a[0])[:200])))
                break


def run(tier, seed, build, res):
    rng = random.Random(seed)
    history_stream(res)
    res.rule = ('parser stream with option unkn forced on (single language) x '
                'package selections; names tracked by the generator: %r; '
                'non-trivial = at least one unknown name listed' % TRACKED)
    n = 600 if tier == 'quick' else 20000
    cases = []
    for c, d, kind in universe.gen_cases(rng, n, kinds=('doc', 'doc', 'insert', 'soup')):
        c.unkn = True
        c.multi = False
        c.repl = None
        c.extr = ''     # extraction disables all definitions
        cases.append((c, d, kind))
    for j in core.load_corpus('C19'):
        cases.append((parsecase.T2T.from_json(j), None, 'corpus'))
    for i in range(0, len(cases), 2000):
        universe.run(cases[i:i + 2000], res, 'unknowns', project, oracle,
                     sample_rule=lambda c, im: bool(im[1][1].strip()))
    repl_stream(res)
    text_env_stream(res)
    declared_stream(res)
    package_list_stream(res)
    glossary_stream(res)
    shell_stream(rng, res, 3)


def replay(payload, build, res):
    j = payload.get('case') or {}
    if 'latex' not in j or j.get('shell'):
        return False
    universe.run([(parsecase.T2T.from_json(j), None, 'replay')], res, 'replay',
                 project, oracle)
    return not res.disagreements
