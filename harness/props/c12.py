"""C12 -- multi-language mode assigns every word to exactly one part of the
right language.

Generator of nested language commands (babel options of class and package,
\\selectlanguage, \\foreignlanguage, otherlanguage(*) environments, in
arguments and footnotes) with marker words whose language the generator
knows; thresholds 0..5; main languages.  Oracle: each word in exactly one
part, part labelled with the word's language, exact positions, short
insertions replaced by one placeholder in the surrounding part, same words as
the single-language run.  Correspondence: tex2txt(multi_language=True) vs the
model (expander + get_txt_pos_ml)."""
import random, re
import core, parsecase, universe
from yalafi import parameters

PROP_FILE = 'props/C12.v'
LT = {'german': 'de-DE', 'english': 'en-GB', 'russian': 'ru-RU', 'ngerman': 'de-DE',
      'french': 'fr'}
MARK = re.compile(r'[qxzjQXZJ]{2,4}\d+k')


class G:
    def __init__(self, rng):
        self.rng = rng; self.s = ''; self.words = []   # (word, offset, lang)
        self.n = 0
        self.insertions = []   # (lang of surrounding text, words inside, separable)

    def word(self, lang):
        w = ''.join(self.rng.choice('qxzjQXZJ') for _ in range(self.rng.randint(2, 4))) \
            + str(self.n) + 'k'
        self.n += 1
        self.words.append((w, len(self.s), lang))
        self.s += w
        return w

    def text(self, lang, depth, nwords=None):
        k = nwords if nwords is not None else self.rng.randint(1, 7)
        for i in range(k):
            r = self.rng.random()
            if depth > 0 and r < 0.25:
                self.foreign(lang, depth - 1)
            elif depth > 0 and r < 0.3:
                self.s += '\\footnote{'
                self.text(lang, depth - 1, self.rng.randint(1, 3))
                self.s += '}'
            elif r < 0.35:
                self.s += '\\textbf{'
                self.word(lang)
                self.s += '}'
            else:
                self.word(lang)
            self.s += self.rng.choice([' ', ' ', '\n', ', ', '. '])

    def foreign(self, outer, depth):
        l2 = self.rng.choice(['german', 'english', 'russian', 'german'])
        self.s += '\\foreignlanguage{' + l2 + '}{'
        if self.rng.random() < 0.3:
            # white space in front of a short insertion
            self.s += self.rng.choice(['  ', '\n ', ' \t', '   '])
        n0 = len(self.words)
        self.text(LT[l2], depth, self.rng.randint(1, 5))
        self.s = self.s.rstrip(' \n')
        # a control word as the last token of the insertion: the blanks it
        # skips must not take the language switch with them
        if self.rng.random() < 0.25:
            self.s += self.rng.choice([' \\LaTeX', '\\dots', ' \\unkq', '\\ldots ', ' \\TeX '])
        elif self.rng.random() < 0.3:
            # white space at the end of the insertion
            self.s += self.rng.choice([' ', '  ', '\n', ' \t'])
        self.s += '}'
        self.insertions.append((outer, LT[l2], [w for w, _, _ in self.words[n0:]]))


def gen(rng):
    g = G(rng)
    main = rng.choice(['en-GB', 'de-DE', 'en-US'])
    cur = main
    kind = rng.random()
    if kind < 0.3:
        o = rng.choice(['german', 'english', 'russian'])
        g.s += '\\usepackage[%s]{%s}\n' % (o, rng.choice(['babel', 'babel', 'babel,amsmath',
                                                           'amsmath,babel', 'xcolor,babel,amsmath']))
        cur = LT[o]
    elif kind < 0.5:
        o1 = rng.choice(['german', 'english'])
        o2 = rng.choice(['ngerman', 'english', 'russian'])
        g.s += '\\documentclass[%s]{article}\n\\usepackage[%s]{babel}\n' % (o1, o2)
        cur = LT[o2]
    elif kind < 0.65:
        # several languages: the last one is the main language unless an
        # option main=<language> names it (babel manual, section 1.8)
        names = ['german', 'ngerman', 'english', 'russian']
        opts = [rng.choice(names) for _ in range(rng.randint(1, 3))]
        mainopt = None
        if rng.random() < 0.6:
            mainopt = rng.choice(names)
            opts.insert(rng.randint(0, len(opts)), rng.choice(['main=%s', 'main=%s', 'main = %s']) % mainopt)
        if rng.random() < 0.3:
            opts.insert(rng.randint(0, len(opts)), rng.choice(['shorthands=off', 'provide=*', 'strings=generic']))
        if rng.random() < 0.3:
            g.s += '\\documentclass[%s]{article}\n\\usepackage{babel}\n' % ','.join(opts)
        else:
            g.s += '\\usepackage[%s]{babel}\n' % ','.join(opts)
        cur = LT[mainopt] if mainopt else LT[[o for o in opts if '=' not in o][-1]]
    else:
        g.s += '\\usepackage{babel}\n'
    for _ in range(rng.randint(1, 5)):
        r = rng.random()
        if r < 0.3:
            l2 = rng.choice(['german', 'english', 'russian'])
            g.s += '\\selectlanguage{' + l2 + '}\n'
            cur = LT[l2]
            g.text(cur, 2)
        elif r < 0.5:
            l2 = rng.choice(['german', 'english', 'russian'])
            env = rng.choice(['otherlanguage', 'otherlanguage*'])
            g.s += '\\begin{' + env + '}{' + l2 + '}\n'
            g.text(LT[l2], 2)
            if rng.random() < 0.25:
                g.s += rng.choice(['\\LaTeX', '\\dots', '\\unkq'])
            g.s += '\n\\end{' + env + '}\n'
        elif r < 0.62:
            # a short insertion at the very end of a part, then a hard switch
            g.text(cur, 1, rng.randint(1, 3))
            g.foreign(cur, 0)
            l3 = rng.choice(['german', 'english', 'russian'])
            g.s += rng.choice(['', ' ', '\n']) + '\\selectlanguage{' + l3 + '}' \
                + rng.choice([' ', '\n'])
            cur = LT[l3]
            g.text(cur, 1)
        else:
            g.text(cur, 2)
        g.s += rng.choice(['\n\n', '\n'])
    return g, main


def project(r):
    if r[0] != 'OK':
        return (r[0],)
    return ('OK', r[1])


def _run_own(tier, seed, build, res):
    rng = random.Random(seed)
    res.rule = ('documents with nested language commands (package / class '
                'options, \\selectlanguage, \\foreignlanguage to depth 2, '
                'otherlanguage(*), inside \\textbf and \\footnote) x thresholds '
                '0..5 x main languages; the generator knows the language of every '
                'marker word; non-trivial = at least two languages in the result')
    n = 300 if tier == 'quick' else 8000
    cases = []
    meta = {}
    for _ in range(n):
        g, main = gen(rng)
        th = rng.choice([0, 1, 2, 3, 4, 5])
        c = parsecase.T2T(g.s, lang=main, pack='*', multi=True, thresh=th, files={})
        meta[(g.s, main, th)] = g
        cases.append((c, None, 'ml'))
    # layouts of the word count heuristic
    for th in range(0, 6):
        for k in range(1, 7):
            for lay in (' ', '\n', '  ', ' \n '):
                for lead in ('', ' '):
                    g = G(rng)
                    g.s = '\\usepackage{babel}\nAaa bbb ccc ddd eee fff \\foreignlanguage{german}{' + lead
                    ws = []
                    for i in range(k):
                        ws.append(g.word('de-DE'))
                        if i < k - 1:
                            g.s += lay
                    g.s += '} ggg hhh iii jjj kkk.\n'
                    g.insertions.append(('en-GB', 'de-DE', ws))
                    c = parsecase.T2T(g.s, lang='en-GB', pack='*', multi=True, thresh=th,
                                      files={})
                    meta[(g.s, 'en-GB', th)] = g
                    cases.append((c, None, 'ml'))

    # a hard switch inside an insertion or an environment, text of the outer
    # language behind its end (the scope's end restores the outer language)
    rng2 = random.Random(12)
    for inner in ('german', 'russian'):
        for hard in ('russian', 'german', 'english'):
            for opener, closer in (('\\foreignlanguage{%s}{', '}'),
                                   ('\\begin{otherlanguage}{%s}\n', '\n\\end{otherlanguage}\n'),
                                   ('\\begin{otherlanguage*}{%s}\n', '\n\\end{otherlanguage*}\n'),
                                   ('\\foreignlanguage{english}{\\foreignlanguage{%s}{', '}}')):
                for nw in (1, 8):
                    g = G(rng2)
                    g.s = '\\usepackage[german,russian,english]{babel}\n'
                    for _ in range(8):
                        g.word('en-GB'); g.s += ' '
                    g.s += opener % inner
                    for _ in range(nw):
                        g.word(LT[inner]); g.s += ' '
                    g.s += '\\selectlanguage{' + hard + '} '
                    for _ in range(8):
                        g.word(LT[hard]); g.s += ' '
                    g.s = g.s.rstrip(' ') + closer + ' '
                    for _ in range(8):
                        g.word('en-GB'); g.s += ' '
                    g.s += '\n'
                    c = parsecase.T2T(g.s, lang='en-GB', pack='*', multi=True, thresh=0,
                                      files={})
                    meta[(g.s, 'en-GB', 0)] = g
                    cases.append((c, None, 'ml'))

    def oracle(c, d, kind, im):
        g = meta.get((c.latex, c.lang, c.thresh))
        if im[0] != 'OK' or g is None:
            return None
        parts = universe.texts_of(im)
        lc = parameters.Parameters(c.lang).lang_context
        for w, off, lang in g.words:
            hits = [(lg, t, p) for lg, t, p in parts if w in t]
            if len(hits) > 1:
                return 'word %r appears in %d parts' % (w, len(hits))
            if not hits:
                # it may stand for a placeholder of a short insertion
                ins = [i for i in g.insertions if w in i[2]]
                if ins and len(ins[0][2]) <= max(c.thresh, 0) + 10 and \
                        all(len(i[2]) <= c.thresh or True for i in ins):
                    continue
                return 'word %r is in no part' % w
            lg, t, p = hits[0]
            if lg != lang:
                return ('word %r stands in %s text, it is in a part labelled %s'
                        % (w, lang, lg))
            k = t.find(w)
            if p[k:k + len(w)] != list(range(off + 1, off + 1 + len(w))):
                return 'word %r at offset %d maps to %r' % (w, off, p[k:k + len(w)])
        # a placeholder for an insertion comes from the language-change
        # collection of the language of the part it stands in
        for lg, t, p in parts:
            try:
                own = set(parameters.Parameters(lg).lang_context.lang_change_repl)
            except Exception:
                continue
            for m in re.finditer(r'(?<![\w-])(\w)-\1-\1(?![\w-])', t):
                if m.group(0) not in own:
                    return ('placeholder %r stands in a part labelled %s, whose language-change '
                            'collection is %r' % (m.group(0), lg, sorted(own)))
        # the same words as the single-language run
        c1 = parsecase.T2T(c.latex, lang=c.lang, pack='*', multi=False, files={})
        s = parsecase.run_t2t(c1)
        if s[0] == 'OK':
            a = sorted(MARK.findall(s[1][1]))
            b = sorted(sum((MARK.findall(t) for _, t, _ in parts), []))
            if a != b:
                return 'words of the parts %r differ from the single-language run %r' % (b[:6], a[:6])
        # a short top-level insertion inside a sentence: one placeholder, the
        # sentence continues in the same part
        if c.latex.startswith('\\usepackage{babel}\nAaa bbb'):
            outer, inner, ws = g.insertions[0]
            chg = parameters.Parameters('en').lang_context.lang_change_repl
            en = [t for lg, t, p in parts if lg == 'en-GB']
            joined = len(en) == 1 and 'fff' in en[0] and 'ggg' in en[0]
            ph = any(x in t for t in en for x in chg)
            if len(ws) <= c.thresh and not (joined and ph):
                return ('insertion of %d words with threshold %d: the sentence is '
                        'not continued with a placeholder: %r' % (len(ws), c.thresh, en))
            if len(ws) > c.thresh and (joined or ph):
                return ('insertion of %d words with threshold %d is replaced by a '
                        'placeholder: %r' % (len(ws), c.thresh, en))
        return None
    for i in range(0, len(cases), 2000):
        universe.run(cases[i:i + 2000], res, 'ml', project, oracle,
                     sample_rule=lambda c, im: len(set(l for l, _, _ in universe.texts_of(im))) > 1)
    # nested switch to the language in force (F9), stray closing tokens
    for latex in ['\\usepackage{babel}X1 X2 X3 X4 \\foreignlanguage{german}{A1 A2 A3 A4 A5 '
                  '\\foreignlanguage{german}{B1 B2 B3 B4 B5} C1 C2 C3 C4 C5} D1 D2 D3 D4\n',
                  '\\usepackage{babel}A \\end{otherlanguage} B \\end{otherlanguage*} C']:
        c = parsecase.T2T(latex, lang='en-GB', pack='*', multi=True, files={})
        universe.run([(c, None, 'directed')], res, 'directed', project,
                     lambda c, d, k, im: (None if im[0] == 'OK' and (
                         'C1' not in c.latex or any(lg == 'de-DE' and 'C1 C2' in t
                                                    for lg, t, p in universe.texts_of(im)))
                         else 'text after a nested switch to the same language is '
                              'labelled wrongly or no result: %r' % (im[:2],)))


def macro_name_stream(res):
    """the language name given through a user macro: the definition in force
    at the switch counts, also after a redefinition"""
    texs = []
    for mac in ('\\foreignlanguage{\\other}{%s}', '\\begin{otherlanguage}{\\other}%s\\end{otherlanguage}',
                '{\\selectlanguage{\\other}%s}'):
        tex = '\\usepackage{babel}\\newcommand{\\other}{german}\nAaa bbb ccc ddd.\n'
        tex += mac % 'Wa1k Wb2k Wc3k Wd4k We5k Wf6k Wg7k.' + '\nGgg hhh iii jjj.\n'
        tex += '\\renewcommand{\\other}{russian}\n'
        tex += mac % 'Xa1k Xb2k Xc3k Xd4k Xe5k Xf6k Xg7k.' + '\nKkk lll mmm.\n'
        tex += '\\renewcommand{\\other}{german}\n'
        tex += mac % 'Ya1k Yb2k Yc3k Yd4k Ye5k Yf6k Yg7k.' + '\nNnn ooo.\n'
        texs.append(tex)
    cases = [(parsecase.T2T(t, lang='en-GB', pack='*', multi=True, thresh=th, files={}), None, 'macro-name')
             for t in texs for th in (0, 2)]

    def oracle(c, d, kind, im):
        if im[0] != 'OK':
            return 'no result: %r' % (im[:2],)
        want = {'Wa1k': 'de-DE', 'Xa1k': 'ru-RU', 'Ya1k': 'de-DE', 'Ggg': 'en-GB', 'Kkk': 'en-GB',
                'Nnn': 'en-GB', 'Xg7k': 'ru-RU', 'Yg7k': 'de-DE'}
        if 'selectlanguage' in c.latex:
            want = {'Wa1k': 'de-DE', 'Xa1k': 'ru-RU', 'Ya1k': 'de-DE', 'Xg7k': 'ru-RU'}
        for w, lg in want.items():
            got = [l for l, t, p in universe.texts_of(im) if w in t]
            if got != [lg]:
                return ('word %r stands in %s text (the macro \\other is defined as that language '
                        'at the switch), it is in parts labelled %r' % (w, lg, got))
        return None
    universe.run(cases, res, 'macro-name', project, oracle)


def run(tier, seed, build, res):
    _run_own(tier, seed, build, res)
    macro_name_stream(res)
    # snippets of /repo's own tests and their mutations (harness/seeds.py)
    universe.run_seeds(random.Random(seed + 7), res, project, tier, share=0.6)


def replay(payload, build, res):
    j = payload.get('case') or {}
    if 'latex' not in j:
        return False
    universe.run([(parsecase.T2T.from_json(j), None, 'replay')], res, 'replay',
                 project, lambda *a: None)
    return not res.disagreements
