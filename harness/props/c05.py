"""C05 -- text flow is preserved: no paragraph break invented or lost, no
words glued.

Layout enumerator: two words with every sequence of up to N layout slots
(blank, line break, blank line, indentation, comment, vanishing constructs,
\\par, paragraph environments) between them.  The oracle is TeX's treatment of
white space (spaces after a control word and at the start of a line do not
count, a comment ends its line, an empty line is a paragraph break);
correspondence with the model on the same inputs and on the parser stream."""
import itertools, random, re
import core, parsecase, universe
from yalafi import parameters

PROP_FILE = 'props/C05.v'

SLOTS = [' ', '\n', '\n\n', '  ', '\t', '% c\n', '%\n', '\\label{x}', '\\index{i}',
         '\\unkm', '\\unkm{}', '{}', '\\par', '\\\\',
         '%%% LT-SKIP-BEGIN\nskipped\n%%% LT-SKIP-END\n',
         '\\begin{tikzpicture}\nx\n\\end{tikzpicture}', '\\LTskip{s}',
         '\\begin{itemize}', '\\vphantom{X}', '\\,', '~']
PARFORM = ('\\par', '\\begin{itemize}')


def tex_reference(sep):
    """'par' | 'space' | 'glued' | None (no claim) after TeX's rules"""
    if any(x in sep for x in ('\\\\', '\\,', '~', '\\begin{itemize}')):
        # a forced line break / explicit space / list start: separated for sure
        # by white space, paragraph only where a blank line or \par stands
        pass
    s = sep
    # remove skip regions and removed environments (they vanish)
    s = re.sub(r'%%% LT-SKIP-BEGIN\n.*?%%% LT-SKIP-END\n', '%\n', s, flags=re.S)
    s = re.sub(r'\\begin\{tikzpicture\}.*?\\end\{tikzpicture\}', '{}', s, flags=re.S)
    par = False
    space = False
    state = 'M'         # the first word has just been read
    i = 0
    n = len(s)
    while i < n:
        c = s[i]
        if c == '%':
            j = s.find('\n', i)
            i = n if j < 0 else j + 1
            state = 'N'
            continue
        if c == '\n':
            if state == 'N':
                par = True
            elif state == 'M':
                space = True
            state = 'N'
            i += 1
            continue
        if c in ' \t':
            if state == 'M':
                space = True
                state = 'S'
            i += 1
            continue
        if c == '\\':
            m = re.match(r'\\[A-Za-z@]+', s[i:])
            if m:
                name = m.group(0)
                if name == '\\par':
                    par = True
                i += len(name)
                state = 'S'
                continue
            # \\ and \, : output white space
            space = True
            i += 2
            state = 'M' if s[i - 1] != '\\' else 'S'
            continue
        if c == '~':
            space = True
        state = 'M'
        i += 1
    if '\\begin{itemize}' in s:
        return None
    if par:
        return 'par'
    if space:
        return 'space'
    return 'glued'


def classify(txt, w1, w2):
    a = txt.find(w1)
    b = txt.find(w2)
    if a < 0 or b < 0 or b < a:
        return 'lost'
    mid = txt[a + len(w1):b]
    if mid.strip():
        return 'text:%r' % mid
    if re.search(r'\n[^\S\n]*\n', mid):
        return 'par'
    if mid:
        return 'space'
    return 'glued'


def project(r):
    if r[0] != 'OK':
        return (r[0],)
    return ('OK', [(lang, t) for lang, t, p in universe.texts_of(r)])


def make_oracle(seps):
    def oracle(c, d, kind, im):
        if kind != 'layout' or im[0] != 'OK':
            return None
        sep = seps[c.latex]
        want = tex_reference(sep)
        txt = im[1][1]
        got = classify(txt, 'Wone', 'Wtwo')
        if got == 'lost' or got.startswith('text'):
            return 'words lost or text between them: %r -> %r' % (sep, txt)
        if want == 'par' and got != 'par':
            return ('blank line / \\par between the words in the source %r, '
                    'output %r has no paragraph break' % (sep, txt))
        if want in ('space', 'glued') and got == 'par':
            return ('no blank line between the words in the source %r, output '
                    '%r has a paragraph break' % (sep, txt))
        if want == 'space' and got == 'glued':
            return ('words separated by white space in the source %r are glued '
                    'in the output %r' % (sep, txt))
        return None
    return oracle


def run(tier, seed, build, res):
    rng = random.Random(seed)
    N = 3 if tier == 'quick' else 4
    res.rule = ('all sequences of up to %d layout slots out of %d between two '
                'words (%s), random longer ones, each in a one-paragraph and a '
                'three-paragraph context; oracle after TeX (paragraph iff blank '
                'line or \\par; separated iff a counting blank); non-trivial = '
                'separator that holds a vanishing construct'
                % (N, len(SLOTS), 'exhaustive' if tier == 'thorough' else
                   'exhaustive to 2, sampled beyond'))
    seqs = []
    for n in range(0, N + 1):
        allp = list(itertools.product(range(len(SLOTS)), repeat=n))
        if tier == 'quick' and n >= 3:
            allp = rng.sample(allp, 1500)
        elif n >= 4:
            allp = rng.sample(allp, 40000)
        seqs += allp
    for _ in range(300 if tier == 'quick' else 5000):
        seqs.append(tuple(rng.randrange(len(SLOTS)) for _ in range(rng.randint(5, 8))))
    # line-structured separators: 1-4 whole lines between the words, each an
    # indentation followed by markup only, a comment, or nothing
    INDENT = ['', '  ', '\t']
    LINE = ['', '\\label{x}', '\\index{i}', '\\unkm{}', '% c', '\\label{x}\\index{i}',
            '\\label{x} ', '{}']
    ltypes = [a + b for a in INDENT for b in LINE]
    lsep = []
    for n in (1, 2, 3, 4):
        allp = list(itertools.product(ltypes, repeat=n))
        if n >= 3 or (tier == 'quick' and n >= 2):
            allp = rng.sample(allp, 400 if tier == 'quick' else 6000)
        for first in ('\n', ' \n', ''):
            lsep += [first + ''.join(l + '\n' for l in q) + rng.choice(['', '  ']) for q in allp]
    if tier == 'quick':
        lsep = rng.sample(lsep, 1200)
    seps = {}
    cases = []
    for q in seqs + lsep:
        sep = ''
        if isinstance(q, str):
            sep = q
            q = ()
        for i in q:
            sep += SLOTS[i]
        # keep a control word apart from the following word
        if re.search(r'\\[A-Za-z]+$', sep):
            sep += '{}'
        for pre, post in (('', ''), ('Intro text.\n\n', '\n\nLast paragraph.\n')):
            latex = pre + 'Wone' + sep + 'Wtwo' + post
            if latex in seps:
                continue
            seps[latex] = sep
            cases.append((parsecase.T2T(latex, lang='en', pack='*', files={}), None,
                          'layout'))
    res.extra['exhaustive_slots'] = 2 if tier == 'quick' else 3
    oracle = make_oracle(seps)
    for i in range(0, len(cases), 3000):
        universe.run(cases[i:i + 3000], res, 'layout', project, oracle,
                     sample_rule=lambda c, im: '\\' in seps.get(c.latex, ''))
    # the general stream: texts only
    g = list(universe.gen_cases(rng, 200 if tier == 'quick' else 5000,
                                kinds=('doc', 'delete')))
    from props import c03

    def glue_oracle(c, d, kind, im):
        # words of a structured document are not glued to what stands next
        # to them (harness/props/c03.py: glued)
        # (with --nosp the skip regions of the generated documents are read
        # as text and may open maths: no well-formed document any more; a text
        # with an error mark is C08's subject)
        if d is None or kind != 'doc' or im[0] != 'OK' or c.extr or c.unkn or c.repl \
                or c.nosp:
            return None
        allt = '\n'.join(t for _, t, _ in universe.texts_of(im))
        if parameters.Parameters().mark_latex_error in allt:
            return None
        return c03.glued(c, d, allt, set(d.accented))
    universe.run(g, res, 'parser', project, glue_oracle)
    after_construct_stream(rng, res, tier)
    env_lines_stream(res)
    repl_layout_stream(res)
    theorem_stream(res)


def theorem_stream(res):
    """theorem-like environments declared by the document: a single line
    break between \\begin{thm}, its optional title and the text is no
    paragraph break; a blank line is one"""
    cases = []
    for opt in ('', '[Name]', '[A title with words]'):
        for sep, want in (('\n', 0), (' ', 0), ('', 0), ('\n\n', 1), (' \n', 0), ('\n  ', 0),
                          ('% c\n', 0)):
            tex = ('\\newtheorem{thm}{Theorem}\nIntro words.\n\n\\begin{thm}' + opt + sep
                   + 'Wtext follows here.\n\\end{thm}\n\nLast words.\n')
            cases.append((parsecase.T2T(tex, lang='en', pack='*', files={}), want, 'theorem'))

    def oracle(c, want, kind, im):
        if im[0] != 'OK':
            return None
        txt = im[1][1]
        a = txt.find('Theorem')
        b = txt.find('Wtext')
        if a < 0 or b < 0:
            return 'theorem heading or text lost: %r' % txt
        got = len(re.findall(r'\n[ \t]*\n', txt[a:b]))
        if (got > 0) != (want > 0):
            return ('%d paragraph break(s) between the theorem heading and its text, '
                    'the source has %d: %r' % (got, want, txt[a:b + 5]))
        return None
    universe.run(cases, res, 'theorem', project, oracle)


def repl_layout_stream(res):
    """a replacement list does not move paragraph breaks: the words of a
    phrase may be separated by blanks and one line break, a blank line between
    them (also one that holds blanks) is a paragraph break and stays"""
    seps = [' ', '  ', '\t', '\n', ' \n ', '\n\n', '\n \n', '\n\t\n', ' \n \n ', '\n\n\n',
            '\n  \n\n', ' % c\n', '\n% c\n', '\n% c\n\n', '\n\n  ']
    cases = []
    for sep in seps:
        for repl in (['so dass & sodass'], ['so dass & so dass dass'], ['so & x', 'dass & y'], None):
            for lead in ('Wone ', 'Wone\n\n'):
                tex = lead + 'so' + sep + 'dass Wtwo end.\n'
                cases.append((parsecase.T2T(tex, lang='de', pack='*', repl=repl), None, 'repl-layout'))
    sepof = {c.latex: re.search(r'so(.*)dass Wtwo', c.latex, re.S).group(1) for c, _, _ in cases}

    def oracle(c, d, kind, im):
        if im[0] != 'OK':
            return None
        t = im[1][1]
        a, b = t.find('Wone'), t.find('Wtwo')
        if a < 0 or b < 0:
            return 'words lost: %r' % t
        k = t.find('Wone') + 4
        lead_par = c.latex.startswith('Wone\n\n')
        # the break behind Wone (if any) belongs to the lead, not to the phrase
        mid = t[k:b]
        if lead_par:
            mid = re.sub(r'^\s*\n\s*\n\s*', '', mid, count=1)
        want = tex_reference(sepof[c.latex]) == 'par'
        got = re.search(r'\n[ \t]*\n', mid) is not None
        if want and not got:
            return ('blank line between the words of the phrase in the source %r, the output '
                    '%r has no paragraph break there' % (sepof[c.latex], t))
        if got and not want:
            return ('no blank line in the source %r, the output %r has a paragraph break'
                    % (sepof[c.latex], t))
        return None
    universe.run(cases, res, 'repl-layout', project, oracle)


def env_lines_stream(res):
    """\\begin{env} / \\end{env} on lines of their own inside a paragraph leave
    no blank line: every environment of the catalogue that takes no
    mandatory argument, and the language environments of babel"""
    macs, envs = universe.catalogue()
    names = [(n, '') for n, (args, dcls) in envs if 'A' not in args and not dcls][:60]
    names += [('otherlanguage', '{german}'), ('otherlanguage*', '{german}'),
              ('otherlanguage', '{english}'), ('otherlanguage*', '{english}')]
    cases = []
    for n, arg in names:
        if n in ('verbatim', 'verbatim*', 'lstlisting', 'tikzpicture', 'comment', 'document'):
            continue
        for ind in ('', '  '):
            tex = ('Wone aa\n' + ind + '\\begin{' + n + '}' + arg + '\n' + ind + 'Wmid bb\n' + ind
                   + '\\end{' + n + '}\nWtwo cc.\n')
            cases.append((parsecase.T2T(tex, lang='en', pack='*', files={}), None, 'env-lines'))

    def oracle(c, d, kind, im):
        if im[0] != 'OK':
            return None
        t = im[1][1]
        if 'Wone' not in t or 'Wtwo' not in t:
            return None
        k1, k2 = t.find('Wmid'), t.find('Wtwo')
        if k1 < 0:
            return None         # the environment is removed or rendered otherwise
        if re.search(r'\n[ \t]*\n', t[k1:k2]) and not re.search(r'\n[ \t]*\n', t[:k1]):
            # (environments that are paragraphs of their own have a break on
            # both sides)
            return ('no blank line behind the text of the environment in the source, the '
                    'output has one: %r' % t)
        return None
    universe.run(cases, res, 'env-lines', project, oracle)


def after_construct_stream(rng, res, tier):
    """a word that follows a construct behind white space is not glued to the
    text the construct generates: every macro of the catalogue (its arguments
    in braces), the glossary macros with entries read from a .glsdefs file"""
    macs, envs = universe.catalogue()
    calls = []
    for name, (args, dcls) in macs:
        if name in universe.CAT_SKIP or 'A' not in args or name in (
                '\\LTinput', '\\usepackage', '\\documentclass', '\\begin', '\\end',
                '\\substack'):        # \substack: valid in maths only
            continue
        a = ''.join('{german}' if name in ('\\foreignlanguage', '\\selectlanguage')
                    else '{ma}' for code in args if code == 'A')
        if name == '\\foreignlanguage':
            a = '{german}{ma}'
        calls.append(('', name + a, dcls))
        # the last argument ends with a control word: the blank behind the
        # closing brace is not its to skip
        if a.endswith('{ma}'):
            for cw in ('\\LaTeX', '\\dots'):
                calls.append(('', name + a[:-1] + ' ' + cw + '}', dcls))
    pre = '\\usepackage{glossaries}\\LTinput{main.glsdefs}\n'
    for m in ('\\gls', '\\Gls', '\\glspl', '\\GLS', '\\glsdesc', '\\glstext', '\\Glspl',
              '\\glsentrytext', '\\acrshort', '\\acrlong'):
        for lab in ('pp', 'ex'):
            calls.append((pre, m + '{' + lab + '}', ''))
    if tier == 'quick':
        often = [x for x in calls[:-20] if x[1].split('{')[0] in (
            '\\foreignlanguage', '\\textbf', '\\emph', '\\section', '\\footnote', '\\mbox',
            '\\textcolor', '\\caption', '\\item', '\\href', '\\text')]
        calls = calls[-20:] + often + rng.sample(calls[:-20], 40)
    cases = []
    for pre_, call, dcls in calls:
        for sep in (' ', '\n', ' % c\n', '  '):
            tex = pre_ + 'Wone ' + call + sep + 'Wtwo end.\n'
            c = parsecase.T2T(tex, lang='en', pack='*', dcls=dcls,
                              files={'main.glsdefs': universe.FILES['main.glsdefs']})
            cases.append((c, None, 'after'))

    def oracle(c, d, kind, im):
        if im[0] != 'OK':
            return None
        t = im[1][1]
        k = t.find('Wtwo')
        if k < 0:
            return 'the word behind the construct is lost: %r' % t
        if k > 0 and t[k - 1].isalnum():
            return ('the word behind the construct is glued to the generated text: %r'
                    % t[max(0, k - 12):k + 4])
        return None
    universe.run(cases, res, 'after-construct', project, oracle)


def replay(payload, build, res):
    j = payload.get('case') or {}
    if 'latex' not in j:
        return False
    c = parsecase.T2T.from_json(j)
    m = re.search(r'Wone(.*)Wtwo', c.latex, re.S)
    seps = {c.latex: m.group(1) if m else ''}
    universe.run([(c, None, 'layout')], res, 'replay', project, make_oracle(seps))
    return not res.disagreements
