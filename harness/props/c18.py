"""C18 -- extraction and inclusion tracking find exactly the included files,
each once.

(a) inclusion graphs through the real `python -m yalafi.shell --include`
    (scratch directory, fake proofreader): the list printed after 'checking
    for file inclusions' vs the model work list (coq/model/Include.v) and vs
    a breadth-first reference computed from the generator's own graph.
(b) extraction: tex2txt(extr=...) on documents whose listed macros stand in
    text, arguments, comments, skip regions and verbatim material."""
import itertools, random, re
import core, shellrun
from yalafi import tex2txt

PROP_FILE = 'props/C18.v'

NAMES = ['a.tex', 'b.v2.tex', 'c.tex', 'sub/d.tex']


def ref_style(rng, target):
    """how a file refers to target: with or without .tex, \\input / \\include"""
    base = target[:-4] if rng.random() < 0.6 else target
    mac = rng.choice(['\\input', '\\include'])
    return mac + '{' + base + '}', base


def file_text(rng, refs):
    """refs: list of (latex, name); decoys that must not count"""
    parts = ['Text \\textbf{with} $x$.\n']
    for tex_, name in refs:
        ctx = rng.choice(['plain', 'plain', 'brace', 'unknown', 'par'])
        if ctx == 'plain':
            parts.append(tex_ + '\n')
        elif ctx == 'brace':
            parts.append('{' + tex_ + '}\n')
        elif ctx == 'unknown':
            parts.append('\\unknownmacro{' + tex_ + '}\n')
        else:
            parts.append('\n\n' + tex_ + '\n\n')
    decoys = ['% \\input{decoy1}\n', '\\verb|\\input{decoy2}|\n',
              '%%% LT-SKIP-BEGIN\n\\input{decoy3}\n%%% LT-SKIP-END\n',
              '\\begin{verbatim}\n\\include{decoy4}\n\\end{verbatim}\n',
              '\\LTskip{\\input{decoy5}}\n']
    for d in rng.sample(decoys, rng.randint(0, 3)):
        parts.insert(rng.randint(0, len(parts)), d)
    return ''.join(parts)


def bfs(graph, start, skip):
    """reference: graph name -> list of referenced names (as written)"""
    todo = list(start)
    done = []
    while todo:
        f = todo.pop(0)
        if f in done or skip(f):
            continue
        done.append(f)
        if f not in graph:
            return None          # cannot be opened
        for n in graph[f]:
            g = n if n.endswith('.tex') else n + '.tex'
            if g not in done + todo and not skip(g):
                todo.append(g)
    return done


def make_graph_case(rng, names, edges, start, skip_names, missing=False):
    graph = {}
    files = {}
    for n in names:
        refs = []
        for t in edges.get(n, []):
            tex_, written = ref_style(rng, t)
            refs.append((tex_, written))
        if missing and n == names[0]:
            refs.append(('\\input{nofile}', 'nofile'))
        graph[n] = [w for _, w in refs]
        files[n] = file_text(rng, refs)
    c = {'names': names, 'graph': graph, 'files': files, 'start': start,
         'skip': skip_names, 'define': None}
    if rng.random() < 0.3:
        # a definition file: its own \\input must not count (C09, C18)
        c['define'] = 'defs.tex'
        files['defs.tex'] = ('\\newcommand{\\mm}{M}\n\\input{decoy6}\n'
                             '\\footnote{\\include{decoy7}}\n')
    return c


def run_graph(c):
    args = ['--include']
    if c['skip']:
        args += ['--skip', '|'.join(re.escape(s) for s in c['skip'])]
    if c.get('define'):
        args += ['--define', c['define']]
    r = shellrun.run_shell(c['files'], args + c['start'])
    m = re.search(r'=== checking for file inclusions \.\.\. (.*)\n', r.err)
    lst = m.group(1).split(', ') if m and m.group(1) else ([] if m else None)
    return r, lst


def skip_regex_stream(res):
    """--skip takes a regular expression: a file is left out iff the
    expression matches its whole name (alternatives, groups, wildcards)"""
    inc = ['c.tex', 'b.tex', 'sub/b.tex', 'c.tex.old.tex', 'fig1.tex', 'myfig.tex', 'd.tex']
    files = {n: 'Text in %s.\n' % n for n in inc}
    files['main.tex'] = 'Main.\n' + ''.join('\\input{%s}\n' % n for n in inc)
    for rx in ('c.tex|b.tex', 'b\\.tex|c\\.tex', 'fig.*', '(c|d)\\.tex', 'c\\.tex', 'd.tex|fig1.tex|nothing',
               '.*b\\.tex', 'sub/.*|my.*', '[cd]\\.tex'):
        r = shellrun.run_shell(files, ['--include', '--skip', rx, 'main.tex'])
        m = re.search(r'=== checking for file inclusions \.\.\. (.*)\n', r.err)
        got = m.group(1).split(', ') if m and m.group(1) else None
        want = ['main.tex'] + [n for n in inc if not re.fullmatch(rx, n)]
        res.count('skip-regex', ('skip', rx), nontrivial=True)
        if r.traceback or got != want:
            res.failures.append(('c18-skip:%s' % rx, {'kind': 'skip', 'regex': rx, 'files': files},
                                 '--skip %r: files checked %r, the names the expression does '
                                 'not match are %r' % (rx, got, want)))


def graph_stream(cases, res, stream):
    results = shellrun.pmap(run_graph, cases)
    lines = []
    for c in cases:
        fs = list(c['graph'].items())
        lines.append('file_list %s %s 1 %s' % (
            core.enc_list(c['skip'], core.enc_str),
            core.enc_list(fs, lambda e: core.enc_str(e[0]) + ' '
                          + core.enc_list(e[1], core.enc_str)),
            core.enc_list(c['start'], core.enc_str)))
    outs = core.run_model(lines, shards=2)
    for c, (r, lst), o in zip(cases, results, outs):
        rd = core.Reader(o)
        tag = rd.word()
        mo = ('OK', rd.list(rd.str)) if tag == 'OK' else (tag,)
        sk = set(c['skip'])
        want = bfs(c['graph'], c['start'], lambda f: f in sk)
        case = {'kind': 'graph', 'graph': c['graph'], 'start': c['start'],
                'skip': c['skip'], 'files': c['files'],
                'define': c.get('define')}
        nt = want is not None and len(want) > 1
        res.count(stream, (sorted(c['graph'].items()), c['start'], c['skip']),
                  nontrivial=nt)
        res.dist('files_checked=%s' % (len(want) if want is not None else 'fatal'))
        if nt:
            res.sample({'graph': c['graph'], 'start': c['start'],
                        'skip': c['skip'], 'checked': want})
        key = 'graph:%r' % ((sorted(c['graph'].items()), c['start'], c['skip']),)
        if r.traceback:
            res.failures.append((key, case, 'traceback: ' + r.err[-200:]))
            continue
        if want is None:
            got = 'FATAL' if r.rc == 1 else ('OK', lst)
            if got != 'FATAL':
                res.failures.append((key, case, 'a file that cannot be opened '
                                     'was not reported: %r' % (lst,)))
            if mo[0] != 'FATAL':
                res.disagreements.append((stream, case, 'FATAL', repr(mo)))
            continue
        if lst != want:
            res.failures.append((key, case, 'checked %r, reachable in '
                                 'discovery order %r' % (lst, want)))
        if mo != ('OK', lst):
            res.disagreements.append((stream, case, repr(lst), repr(mo)))
        # each file is handed to the proofreader once, in this order
        called = len(r.calls)
        if lst is not None and r.rc == 0 and called != len(lst):
            res.failures.append((key, case, '%d proofreader calls for %d files'
                                 % (called, len(lst))))


# ---------------- extraction ----------------

def extraction_cases(rng, n):
    """documents with listed macros (\\input, \\foo, \\footnote) in several
    contexts; expected = first mandatory arguments in order of appearance"""
    out = []
    for _ in range(n):
        items = []
        parts = []
        for k in range(rng.randint(1, 6)):
            w = 'arg%d' % k
            mac = rng.choice(['\\input', '\\foo', '\\include'])
            form = rng.choice(['{%s}', '{%s}', '[opt]{%s}', ' {%s}'])
            if '[opt]' in form:
                form = '{%s}'       # no listed macro declares an option
            call = mac + form % w
            ctx = rng.choice(['text', 'brace', 'unknown', 'comment', 'verb',
                              'skip', 'verbatim', 'par', 'known', 'other', 'removed', 'env'])
            if ctx == 'text':
                parts.append('word ' + call + ' word\n')
                items.append(w)
            elif ctx == 'brace':
                parts.append('{\\em ' + call + '}\n')
                items.append(w)
            elif ctx == 'unknown':
                parts.append('\\unk{' + call + '}\n')
                items.append(w)
            elif ctx == 'par':
                parts.append('\n\n' + call + '\n\n')
                items.append(w)
            elif ctx == 'removed':
                # an environment whose text is dropped (a picture): it is no
                # verbatim material, the file it reads is a file of the document
                parts.append(rng.choice(['\\begin{tikzpicture}\n\\draw (0,0); ' + call + '\n\\end{tikzpicture}\n',
                                         'x \\begin{tikzpicture}' + call + '\\end{tikzpicture} y\n']))
                items.append(w)
            elif ctx == 'env':
                parts.append(rng.choice(['\\begin{itemize}\\item ' + call + '\\end{itemize}\n',
                                         '\\begin{quote}' + call + '\\end{quote}\n',
                                         '\\begin{unknownenv}' + call + '\\end{unknownenv}\n',
                                         '\\begin{proof}' + call + '\\end{proof}\n']))
                items.append(w)
            elif ctx == 'comment':
                parts.append('% ' + call + '\n')
            elif ctx == 'verb':
                parts.append('\\verb|' + call + '|\n')
            elif ctx == 'skip':
                parts.append('%%% LT-SKIP-BEGIN\n' + call + '\n%%% LT-SKIP-END\n')
            elif ctx == 'verbatim':
                parts.append('\\begin{verbatim}\n' + call + '\n\\end{verbatim}\n')
            elif ctx == 'other':
                # macros that are not listed: their text is "nothing else",
                # also where the filter normally detaches it (footnote, caption)
                parts.append(rng.choice([
                    'See\\footnote{Note appendix} there\n',
                    '\\begin{figure}\\caption{A nice picture}\\end{figure}\n',
                    '\\footnotetext{more text}\n', '\\section{Heading words}\n',
                    '\\textbf{bold words} \\cite{key}\n',
                    '\\newcommand{\\nn}[1]{#1 x}\\nn{argument}\n',
                    '\\item[label] body\n', '$a = b$ and \\[ c = d. \\]\n']))
            elif ctx == 'known':
                # K4: inside the argument of a declared macro
                parts.append('\\section{' + call + '}\n')
                items.append(('K4', w))
        out.append((''.join(parts), items))
    return out


def extraction_stream(rng, res, n):
    for tex, items in extraction_cases(rng, n):
        defs = rng.choice([None, None, '\\newcommand{\\mm}{M}\n\\input{decoy6} '
                           '\\foo{decoy7}\n'])
        opts = tex2txt.Options(extr='input,include,foo', pack='*', lang='en',
                               defs=defs)
        try:
            plain, pos = tex2txt.tex2txt(tex, opts)
        except BaseException as e:
            res.failures.append(('extr-exc:%r' % tex, {'kind': 'extr', 'tex': tex},
                                 'exception %r' % e))
            continue
        got = plain.split()
        want = [w for w in items if not isinstance(w, tuple)]
        k4 = [w[1] for w in items if isinstance(w, tuple)]
        res.count('extraction', tex, nontrivial=len(want) > 0)
        res.dist('extracted=%d' % min(len(want), 6))
        case = {'kind': 'extr', 'tex': tex}
        if got != want:
            # tolerate exactly the known finding K4 when it is the only cause
            wk = [w if not isinstance(w, tuple) else w[1] for w in items]
            res.failures.append(('extr:%r' % tex, case,
                                 'extracted %r, listed arguments in order of '
                                 'appearance %r' % (got, want)))
        if k4:
            res.failures.append(('K4', case, 'argument of a listed macro inside '
                                 'the argument of a declared macro is not '
                                 'reported: %r' % k4))
        if len(plain) != len(pos):
            res.failures.append(('extr-len:%r' % tex, case, 'length mismatch'))


def parser_reuse_stream(rng, res, n):
    """one Parser object for a sequence of documents (Python interface,
    as tests/test_extract.py uses it): the extraction of each document
    consists of the arguments of that document and nothing else"""
    from yalafi import parameters, parser, utils
    listed = ['\\input', '\\include', '\\foo']
    docs_ = extraction_cases(rng, n)
    shared = parser.Parser(parameters.Parameters('en'))
    for i, (tex, items) in enumerate(docs_):
        case = {'kind': 'extr-reuse', 'tex': tex, 'before': [t for t, _ in docs_[:i]][-3:]}
        res.count('parser-reuse', (i, tex), nontrivial=i > 0)
        try:
            fresh = parser.Parser(parameters.Parameters('en'))
            a = utils.get_txt_pos(fresh.parse(tex, extract=listed))
            b = utils.get_txt_pos(shared.parse(tex, extract=listed))
        except BaseException as e:
            res.failures.append(('extr-reuse-exc:%d' % i, case, 'exception %r' % e))
            continue
        if a != b:
            res.failures.append(('extr-reuse:%d:%r' % (i, tex), case,
                                 'call %d on one parser object extracts %r, a new '
                                 'parser extracts %r from the same document'
                                 % (i + 1, b[0].split(), a[0].split())))


def run(tier, seed, build, res):
    rng = random.Random(seed)
    res.rule = ('inclusion graphs: all edge sets over files %r (3 files '
                'exhaustive incl. self inclusion and cycles, 4 files sampled) '
                'x skip sets x reference styles (with/without .tex, \\input / '
                '\\include, in braces, in unknown macros) with decoys in '
                'comments, \\verb, verbatim, skip regions, \\LTskip; plus '
                'missing files; extraction: random documents with listed '
                'macros in 9 contexts; non-trivial = more than one file / at '
                'least one extracted argument' % (NAMES,))
    cases = []
    three = NAMES[:3]
    pairs = [(a, b) for a in three for b in three]
    subsets = list(itertools.product([0, 1], repeat=len(pairs)))
    if tier == 'quick':
        subsets = rng.sample(subsets, 60)
    for bits in subsets:
        edges = {}
        for (a, b), bit in zip(pairs, bits):
            if bit:
                edges.setdefault(a, []).append(b)
        skip = rng.choice([[], [], ['c.tex'], ['b.v2.tex']])
        start = rng.choice([['a.tex'], ['a.tex'], ['a.tex', 'b.v2.tex'],
                            ['a.tex', 'a.tex', 'c.tex']])
        cases.append(make_graph_case(rng, three, edges, start, skip))
    for _ in range(20 if tier == 'quick' else 400):
        edges = {}
        for a in NAMES:
            for b in NAMES:
                if rng.random() < 0.3:
                    edges.setdefault(a, []).append(b)
        skip = rng.choice([[], ['sub/d.tex'], ['c.tex', 'b.v2.tex']])
        cases.append(make_graph_case(rng, NAMES, edges, ['a.tex'], skip,
                                     missing=rng.random() < 0.1))
    res.extra['exhaustive_3_files'] = tier == 'thorough'
    graph_stream(cases, res, 'graphs')
    skip_regex_stream(res)
    extraction_stream(rng, res, 300 if tier == 'quick' else 5000)
    parser_reuse_stream(rng, res, 40 if tier == 'quick' else 600)


def replay(payload, build, res):
    c = payload.get('case') or {}
    if c.get('kind') == 'graph':
        cc = {'names': list(c['graph']), 'graph': c['graph'], 'files': c['files'],
              'start': c['start'], 'skip': c['skip'], 'define': c.get('define')}
        graph_stream([cc], res, 'replay')
        return not res.disagreements
    if c.get('kind') == 'extr':
        opts = tex2txt.Options(extr='input,include,foo', pack='*', lang='en')
        plain, pos = tex2txt.tex2txt(c['tex'], opts)
        print('extracted:', plain.split())
        return True
    return False
