"""C20 -- the shell's own checks mark the offending characters and honour the
accepted patterns.

Correspondence: yalafi.shell.checks.create_single_letter_matches /
create_equation_punct_messages / create_context  vs  coq/model/Checks.v.
Oracle: a reference written from the property text (no `re`)."""
import re
import itertools, random
import core
from yalafi.shell import checks
from yalafi import parameters

PROP_FILE = 'props/C20.v'

NBSP = ' '
NNBSP = ' '


class CL:
    def __init__(self, single=None, equ=None):
        self.single_letters = single
        self.equation_punctuation = equ


def isw(c):
    return c.isalnum() or c == '_'


def isletter(c):
    return isw(c) and c not in '0123456789_'


def wb(s, i):
    return (i > 0 and isw(s[i - 1])) != (i < len(s) and isw(s[i]))


# ---------------- reference: single letters ----------------

def ref_accept(opt):
    out = []
    for s in opt.split('|'):
        if not s:
            continue
        s = s.replace('~', NBSP).replace('\\,', NNBSP)
        out.append(s)
    return out


def ref_hits(pats, plain):
    hits = []
    i = 0
    while i < len(plain):
        m = 0
        for p in pats:
            if not plain.startswith(p, i):
                continue
            if p[0].isalpha() and not wb(plain, i):
                continue
            if p[-1].isalpha() and not wb(plain, i + len(p)):
                continue
            m = len(p)
            break
        if m:
            hits.append((i, i + m))
            i += m
        else:
            i += 1
    return hits


def ref_single(plain, opt):
    if opt is None:
        return []
    hits = ref_hits(ref_accept(opt), plain)
    out = []
    for i, c in enumerate(plain):
        if not isletter(c):
            continue
        if i > 0 and isw(plain[i - 1]):
            continue
        if i + 1 < len(plain) and isw(plain[i + 1]):
            continue
        if any(b <= i < e for b, e in hits):
            continue
        out.append((i, 1))
    return out


# ---------------- reference: equation punctuation ----------------

def ref_equ_at(pls, s, i):
    """lengths of placeholders matching at i with word boundaries, in order"""
    out = []
    for p in pls:
        if s.startswith(p, i) and wb(s, i) and wb(s, i + len(p)):
            out.append(len(p))
    return out


def ref_equation(plain, pls):
    out = []
    i = 0
    n = len(plain)
    while i < n:
        ls = ref_equ_at(pls, plain, i)
        if not ls:
            i += 1
            continue
        # another equation follows (optionally after one of , ; :)?
        found = None
        for m in ls:
            j = i + m
            while j < n and plain[j].isspace():
                j += 1
            if j < n and plain[j] in ',;:':
                j += 1
            while j < n and plain[j].isspace():
                j += 1
            if ref_equ_at(pls, plain, j):
                found = m
                break
        if found is not None:
            i += found
            continue
        m = ls[0]
        j = i + m
        while j < n and plain[j].isspace():
            j += 1
        end = j
        ok = False
        if j < n and plain[j] == '.':
            end = j + 1
            ok = True
        else:
            k = j
            if k < n and plain[k] in ',;:':
                k += 1
            while k < n and plain[k].isspace():
                k += 1
            w = k
            while w < n and isletter(plain[w]):
                w += 1
            if w > k:
                end = w
                ok = plain[k].islower()
        if not ok:
            out.append((i, end - i))
        i = max(end, i + 1)
    return out


# ---------------- impl / model ----------------

def canon(msgs):
    out = []
    for m in msgs:
        c = m['context']
        out.append((m['offset'], m['length'], c['text'], c['offset'],
                    c['length']))
    return out


def impl_single(plain, opt):
    try:
        return ('OK', canon(checks.create_single_letter_matches(plain, CL(single=opt))))
    except Exception as e:
        return ('EXC', type(e).__name__)


def impl_equation(plain, pls):
    alt = '|'.join(pls)
    try:
        return ('OK', canon(checks.create_equation_punct_messages(
            plain, CL(equ='all'), 'x-x-x', 'y-y-y', alt)))
    except Exception as e:
        return ('EXC', type(e).__name__)


def parse_msgs(out):
    r = core.Reader(out)
    n = r.int()
    res = []
    for _ in range(n):
        o = r.int(); l = r.int(); t = r.str(); co = r.int(); cl = r.int()
        res.append((o, l, t, co, cl))
    return ('OK', res)


def ctx_ok(plain, m):
    o, l, t, co, cl = m
    want = plain[o:o + l].replace('\t', ' ').replace('\n', ' ')
    return l == cl and t[co:co + cl] == want and len(want) == l


def run_single(cases, res, stream):
    lines = ['single_letters %s %d %s' % (core.enc_str(p), 0 if o is None else 1,
                                         core.enc_str(o or '')) for p, o in cases]
    outs = core.run_model(lines)
    for (plain, opt), o in zip(cases, outs):
        im = impl_single(plain, opt)
        mo = parse_msgs(o) if o and o[0].isdigit() else (o,)
        nt = im[0] == 'OK' and len(im[1]) > 0
        res.count(stream, ('s', plain, opt), nontrivial=nt)
        res.dist('single:%s' % ('none' if opt is None else
                                'msgs' if nt else 'nomsg'))
        if nt:
            res.sample({'check': 'single', 'plain': plain, 'accept': opt,
                        'messages': im[1][:3]})
        case = {'check': 'single', 'plain': plain, 'accept': opt}
        if im != mo:
            res.disagreements.append((stream, case, repr(im), repr(mo)))
        bad = None
        if im[0] != 'OK':
            bad = 'exception %s' % im[1]
        else:
            ref = ref_single(plain, opt)
            if [(m[0], m[1]) for m in im[1]] != ref:
                bad = ('marked %r, but the isolated letters not covered by an '
                       'accepted pattern are %r' % (
                           [(m[0], m[1]) for m in im[1]], ref))
            else:
                for m in im[1]:
                    if not ctx_ok(plain, m):
                        bad = 'context excerpt does not mark the same ' \
                              'characters: %r' % (m,)
        if bad:
            res.failures.append(('single:%r:%r' % (plain, opt), case, bad))


def run_equation(cases, res, stream):
    lines = ['equation %s %s' % (core.enc_str(p), core.enc_list(pls, core.enc_str))
             for p, pls in cases]
    outs = core.run_model(lines)
    for (plain, pls), o in zip(cases, outs):
        im = impl_equation(plain, pls)
        mo = parse_msgs(o) if o and o[0].isdigit() else (o,)
        nt = im[0] == 'OK' and len(im[1]) > 0
        res.count(stream, ('e', plain, tuple(pls)), nontrivial=nt)
        res.dist('equation:%s' % ('msgs' if nt else 'nomsg'))
        if nt:
            res.sample({'check': 'equation', 'plain': plain, 'placeholders': pls,
                        'messages': im[1][:3]})
        case = {'check': 'equation', 'plain': plain, 'placeholders': pls}
        if im != mo:
            res.disagreements.append((stream, case, repr(im), repr(mo)))
        bad = None
        if im[0] != 'OK':
            bad = 'exception %s' % im[1]
        else:
            ref = ref_equation(plain, pls)
            if [(m[0], m[1]) for m in im[1]] != ref:
                bad = ('marked %r, reference %r' % (
                    [(m[0], m[1]) for m in im[1]], ref))
            else:
                for m in im[1]:
                    if not ctx_ok(plain, m):
                        bad = 'context excerpt does not mark the same ' \
                              'characters: %r' % (m,)
        if bad:
            res.failures.append(('equation:%r:%r' % (plain, pls), case, bad))


SYM_S = ['a', 'B', '1', '_', 'é', ' ', NBSP, '.', ',', '\n']
ACCEPT = [None, '', 'a', 'a.', 'B|a', 'a~B', 'a.\\,B.', '.a', 'a|a.', 'a.|a',
          'B||a', '|', 'é', 'a b', '1', 'a,', ',a', 'a\\,', 'B.~a']
SYM_E = ['U-U-U', 'V-V', 'a', 'B', '.', ',', ' ', '\n', ':', '1']
PLS = [['U-U-U', 'V-V'], ['V-V', 'U-U-U'], ['U-U-U']]


def placeholders_from_repo():
    out = {}
    for lang in ('en', 'de', 'ru'):
        lc = parameters.Parameters(lang).lang_context
        out[lang] = (list(lc.math_repl_display), list(lc.math_repl_inline),
                     list(lc.lang_change_repl))
    return out


def gen_random_single(rng, n, pool):
    alpha = list('abcXYZ019_.,;:!?-()') + [' ', ' ', ' ', '\n', '\t', NBSP,
                                            NNBSP, 'é', 'ß', 'Ж', '٣', '²',
                                            '中', '\U0001d400', '~', '\\', '|']
    for _ in range(n):
        ln = rng.choice([0, 1, 4, 12, 40, 120])
        plain = ''.join(rng.choice(alpha) for _ in range(ln))
        if rng.random() < 0.5:
            plain += ' ' + ' '.join(rng.choice(pool) for _ in range(rng.randint(1, 4)))
        k = rng.random()
        if k < 0.1:
            opt = None
        else:
            pats = []
            for _ in range(rng.randint(0, 4)):
                if plain and rng.random() < 0.6:
                    a = rng.randrange(len(plain))
                    p = plain[a:a + rng.randint(1, 4)]
                    p = p.replace(NBSP, '~').replace(NNBSP, '\\,')
                else:
                    p = ''.join(rng.choice(alpha) for _ in range(rng.randint(0, 3)))
                pats.append(p.replace('|', ''))
            opt = '|'.join(pats)
            if rng.random() < 0.2:
                opt += '||' + '|'.join(rng.sample(pool, min(3, len(pool))))
        yield (plain, opt)


def gen_random_equation(rng, n, pool):
    # (letters without case -- CJK, Hebrew --, title-case digraphs, feminine
    # ordinal: a word counts as lower-case only if its first letter is)
    words = ['the', 'The', 'and', 'Ünd', 'x', 'X', '1st', 'élan', 'Ж', 'ж',
             '\u4e2d\u6587', '\u05e9\u05dc\u05d5\u05dd', '\u01c5emal', '\u00aab', '\u0646\u0635']
    seps = [' ', '  ', '\n', ' \n ', '', ', ', ',', ';', ': ', '. ', '.', ' .',
            '\t', NBSP, ' - ', '(', ')']
    for _ in range(n):
        pls = rng.sample(pool, rng.randint(1, min(5, len(pool))))
        parts = []
        for _ in range(rng.randint(0, 10)):
            parts.append(rng.choice(pls + words + ['U-U', 'U-U-U-U']))
            parts.append(rng.choice(seps))
        # a long word after a placeholder (context longer than 45)
        if rng.random() < 0.1:
            parts += [rng.choice(pls), ' ', 'A' * rng.randint(40, 60)]
        yield (''.join(parts), pls)


def run(tier, seed, build, res):
    rng = random.Random(seed)
    res.rule = ('single letters: exhaustive texts over %r up to length L x %d '
                'accept lists, plus random texts with accept patterns cut '
                'from the text; equation punctuation: exhaustive sequences '
                'over %r up to length L x %d placeholder orders, plus random '
                'sequences with the placeholder collections of /repo; '
                'non-trivial = at least one message produced'
                % (SYM_S, len(ACCEPT), SYM_E, len(PLS)))
    ls = 3 if tier == 'quick' else 5
    le = 4 if tier == 'quick' else 6
    nr = 2000 if tier == 'quick' else 40000
    res.extra['exhaustive_len_single'] = ls
    res.extra['exhaustive_len_equation'] = le
    ph = placeholders_from_repo()
    pool = sorted(set(sum((a + b + c for a, b, c in ph.values()), [])))
    cases = []
    for n in range(ls + 1):
        for t in itertools.product(SYM_S, repeat=n):
            s = ''.join(t)
            for a in ACCEPT:
                cases.append((s, a))
    for i in range(0, len(cases), 100000):
        run_single(cases[i:i + 100000], res, 'single-exhaustive')
    run_single(list(gen_random_single(rng, nr, pool)), res, 'single-random')
    cases = []
    for n in range(le + 1):
        for t in itertools.product(SYM_E, repeat=n):
            s = ''.join(t)
            for p in PLS:
                cases.append((s, p))
    for i in range(0, len(cases), 100000):
        run_equation(cases[i:i + 100000], res, 'equation-exhaustive')
    run_equation(list(gen_random_equation(rng, nr, pool)), res, 'equation-random')
    for c in core.load_corpus('C20'):
        if c['check'] == 'single':
            run_single([(c['plain'], c['accept'])], res, 'corpus')
        else:
            run_equation([(c['plain'], c['placeholders'])], res, 'corpus')
    modes_and_shell(res)
    shell_stream(res, tier)


def modes_and_shell(res):
    """mode selection and the placeholder alternatives the shell derives"""
    plain = 'U-U-U B-B-B x'
    for mode, want in (('d', [0]), ('displayed', [0]), ('i', [6]),
                       ('inline', [6]), ('a', [6]), ('all', [6])):
        res.count('modes', ('mode', mode))
        try:
            ms = checks.create_equation_punct_messages(
                plain + ' Word', CL(equ=mode), 'U-U-U', 'B-B-B', 'U-U-U|B-B-B')
        except BaseException as e:
            res.failures.append(('mode:' + mode, {'mode': mode},
                                 'exception %r' % e))
            continue
    # a mode that selects none or several of the three: the shell's own
    # message and exit, no other exception
    for mode in ('x', '', 'allx', 'q'):
        res.count('modes', ('bad-mode', mode))
        try:
            checks.create_equation_punct_messages(
                plain + ' Word', CL(equ=mode), 'U-U-U', 'B-B-B', 'U-U-U|B-B-B')
            res.failures.append(('mode:' + mode, {'mode': mode},
                                 'mode %r is accepted (it selects none or several modes)' % mode))
        except SystemExit:
            pass
        except BaseException as e:
            res.failures.append(('mode:' + mode, {'mode': mode},
                                 'mode %r ends in %r instead of the message of the shell' % (mode, e)))
    # table obligation used by the theorems: no placeholder is a prefix of
    # another one (alternation order then cannot matter)
    ph = placeholders_from_repo()
    for lang, (d, i, c) in ph.items():
        allp = d + i + c
        for a in allp:
            for b in allp:
                if a != b and b.startswith(a):
                    res.failures.append((
                        'prefix:%s' % lang, {'lang': lang, 'a': a, 'b': b},
                        'placeholder %r is a prefix of %r: the result of the '
                        'checks depends on the hash order of the alternatives'
                        % (a, b)))


SHELL_DOC = r"""\usepackage[german,english]{babel}
We see a $x$ and B $y$
\[ a = b \]
Often \foreignlanguage{german}{so} Then z holds, cf. S.~5 or e.\,g. t.
The \foreignlanguage{german}{Hund}, Also more.
\begin{equation} c = d. \end{equation}
and $u$ The end w
\begin{otherlanguage}{german}
Hier steht ein langer deutscher Satz mit k darin und $v$ Dann noch
\[ e = f \]
Mehr Text folgt hier q
\end{otherlanguage}
Back to English with j here and $r$ Final words p
"""
MATHS = re.compile(r'\$[^$]*\$|\\\[.*?\\\]|\\begin\{equation\}.*?\\end\{equation\}', re.S)


def shell_stream(res, tier):
    import json as _json
    import shellrun
    ph = placeholders_from_repo()
    langs = [('en-GB', 'en'), ('de-DE', 'de'), ('ru-RU', 'ru')]
    if tier == 'quick':
        langs = langs[:2]
    configs = []
    for lang, l2 in langs:
        for ml in (False, True):
            for single in (None, 'a', 'S.~|e.\\,g.||', '||'):
                for mode in (None, 'displayed', 'inline', 'all'):
                    if tier == 'quick' and mode in ('inline',) and single == 'a':
                        continue
                    configs.append((lang, l2, ml, single, mode))

    def one(cfg):
        lang, l2, ml, single, mode = cfg
        args = ['--output', 'json', '--language', lang]
        if ml:
            args.append('--multi-language')
        if single is not None:
            args += ['--single-letters', single]
        if mode is not None:
            args += ['--equation-punctuation', mode]
        r = shellrun.run_shell({'t.tex': SHELL_DOC}, args + ['t.tex'])
        rx = None
        if mode is not None and single in (None, '||'):
            # the same run as an XML report: line / column of the same characters
            rx = shellrun.run_shell({'t.tex': SHELL_DOC}, ['--output', 'xml'] + args[2:] + ['t.tex'])
        return cfg, (r, rx)
    for cfg, (r, rx) in shellrun.pmap(one, configs):
        lang, l2, ml, single, mode = cfg
        case = {'check': 'shell', 'language': lang, 'multi_language': ml,
                'single_letters': single, 'equation_punctuation': mode}
        res.count('shell', tuple(cfg))
        key = 'shell:%r' % (cfg,)
        if r.rc != 0 or r.traceback:
            res.failures.append((key, case, 'shell failed: rc %d, stderr %s'
                                 % (r.rc, r.err[-300:])))
            continue
        got = []
        place = None
        spans = [(x.start(), x.end()) for x in MATHS.finditer(SHELL_DOC)]
        for m in _json.loads(r.out.decode('utf-8'))['matches']:
            c = m['context']
            got.append((m['rule']['id'], c['text'], c['offset'], c['length']))
            # offset and length of the report select the offending characters
            # in the LaTeX file
            o, l = m['offset'], m['length']
            marked = c['text'][c['offset']:c['offset'] + c['length']]
            if m['rule']['id'] == 'PRIVATE::SINGLE_LETTER':
                # (a letter of a placeholder is reported at its formula or insertion)
                ins = [(x.start(), x.end()) for x in
                       re.finditer(r'\\foreignlanguage\{german\}\{[^}]*\}', SHELL_DOC)]
                if SHELL_DOC[o:o + l] != marked and not any(a <= o < b for a, b in spans + ins):
                    place = ('single-letter message for %r is reported at offset %d length %d '
                             'of the LaTeX file, which holds %r' % (marked, o, l, SHELL_DOC[o:o + l]))
            elif not any(a <= o < b for a, b in spans):
                place = ('equation message for %r is reported at offset %d of the LaTeX '
                         'file, outside every formula (%r)' % (marked, o, SHELL_DOC[o:o + 10]))
        if place:
            res.failures.append((key + ':place', case, place))
        if rx is not None and rx.rc == 0:
            import shellcase
            wantx = []
            for m in _json.loads(r.out.decode('utf-8'))['matches']:
                b = m['offset']; e = b + m['length'] - 1
                wantx.append((SHELL_DOC.count('\n', 0, b), b - (SHELL_DOC.rfind('\n', 0, b) + 1),
                              SHELL_DOC.count('\n', 0, e), e - (SHELL_DOC.rfind('\n', 0, e) + 1) + 1))
            try:
                gotx = [tuple(x) for x in shellcase.parse_xml(rx.out.decode('utf-8'))]
            except Exception as e_:
                gotx = 'unparsable: %r' % e_
            if gotx != wantx:
                res.failures.append((key + ':xml', case,
                                     'the XML report gives line/column %r, offset and length of the '
                                     'JSON report select %r' % (gotx, wantx)))
        d, i, ch = ph[l2]
        want = []
        for call in r.calls:
            plain = call['text']
            if single is not None:
                opt = single
                if opt.endswith('||'):
                    reps = d + i + (ch if ml else [])
                    opt += '|'.join(sorted(set(reps)))
                for o, l in ref_single(plain, opt):
                    c = checks.create_context(plain, o, l)
                    want.append(('PRIVATE::SINGLE_LETTER', c['text'],
                                 c['offset'], c['length']))
            if mode is not None:
                pls = {'displayed': d, 'inline': i, 'all': d + i}[mode]
                for o, l in ref_equation(plain, sorted(set(pls))):
                    c = checks.create_context(plain, o, l)
                    want.append(('PRIVATE::EQUATION_PUNCTUATION', c['text'],
                                 c['offset'], c['length']))
        if sorted(got) != sorted(want):
            res.failures.append((key, case,
                'messages of the shell %r differ from the checks applied to '
                'the submitted text with the placeholders of the language %r'
                % (sorted(got), sorted(want))))
        elif got:
            res.nontrivial.add(repr(cfg).encode())


def replay(payload, build, res):
    c = payload.get('case') or {}
    if c.get('check') == 'single':
        run_single([(c['plain'], c['accept'])], res, 'replay')
    elif c.get('check') == 'equation':
        run_equation([(c['plain'], c['placeholders'])], res, 'replay')
    elif c.get('check') == 'shell':
        shell_stream(res, 'thorough')
    else:
        return False
    return not res.disagreements
