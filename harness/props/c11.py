"""C11 -- displayed equations follow the documented scheme and keep their
punctuation.

Equation enumerator: rows x alignment sections x part shapes (elements,
leading operators, trailing punctuation, \\text parts, labels, maths spaces)
in all equation environments of the catalogue, languages en/de/ru, simple
mode on and off.  Oracle: structural claims of the property (one output line
per row, operator words, final punctuation, nothing of the maths source,
positions inside the equation, simple mode); correspondence with the model
decides the exact placeholder sequence."""
import itertools, random, re
import core, parsecase, universe
from yalafi import parameters, parser

PROP_FILE = 'props/C11.v'

PARTS = ['a', 'x + y', '= b', '\\leq c', '+ d', 'e.', '= f,', 'g \\text{ for } h',
         '\\alpha_i', '\\quad z', 'k \\nonumber', 'm \\label{l}', '= n. \\nonumber',
         '\\mbox{if } p', 'q;\\,', '\\frac{r}{s}:', 't.\\quad\\quad', 'u,\\,\\,', 'v;~\\ ',
         'w: \\; \\;', 'n!', '(n+1)!', 'q?', '= m!',
         # a blank-only \text / \mbox is a spacer, no text part
         '\\text{ } = i', '\\mbox{ } + j', 'b \\text{ } c']


def equ_envs():
    parms = parameters.Parameters('en')
    from yalafi import tex2txt
    p = parser.Parser(parms, tex2txt.get_packages('*', parms.package_modules))
    from yalafi import defs
    return sorted(n for n, e in p.the_environments.items()
                  if type(e) is defs.EquEnv and not e.args and not e.remove)


# equation environments of LaTeX and amsmath, by their documented names: with
# all packages loaded each of them is an equation environment for the filter
LATEX_EQU = ['equation', 'equation*', 'displaymath', 'eqnarray', 'eqnarray*', 'align', 'align*',
             'gather', 'gather*', 'multline', 'multline*', 'flalign', 'flalign*']


def known_names_stream(res):
    for env in LATEX_EQU:
        tex = 'Before we see\n\\begin{%s}\n  a = b.\n\\end{%s}\nAfter that.\n' % (env, env)
        c = parsecase.T2T(tex, lang='en', pack='*', files={})
        im = parsecase.run_t2t(c)
        res.count('latex-names', c.key())
        if im[0] != 'OK':
            res.failures.append(('c11-name:' + env, c.json(), 'no result: %r' % (im[:2],)))
            continue
        txt = im[1][1]
        phs = settings('en').math_repl_display
        if 'a = b' in txt or not any(ph in txt for ph in phs):
            res.failures.append(('c11-name:' + env, c.json(),
                                 'environment %s of LaTeX/amsmath is not rendered as an '
                                 'equation: %r' % (env, txt)))


def settings(lang):
    lc = parameters.Parameters(lang).lang_context
    return lc


def project(r):
    if r[0] != 'OK':
        return (r[0],)
    return ('OK', [(lang, t, p) for lang, t, p in universe.texts_of(r)])


def _run_own(tier, seed, build, res):
    rng = random.Random(seed)
    envs = equ_envs() + ['\\[', '$$']
    res.rule = ('equations with 1-3 rows x 1-3 sections x %d part shapes, in the '
                '%d equation environments of the catalogue and \\[ \\], $$ $$; '
                'languages en, de, ru; simple mode on/off; non-trivial = more '
                'than one row or section' % (len(PARTS), len(envs)))
    n = 400 if tier == 'quick' else 10000
    cases = []
    meta = {}
    shapes = []
    if tier == 'thorough':
        for r_ in (1, 2):
            for s_ in (1, 2):
                shapes += [tuple(tuple(x[i * s_:(i + 1) * s_]) for i in range(r_))
                           for x in itertools.product(range(len(PARTS)), repeat=r_ * s_)
                           if rng.random() < 0.05]
    for _ in range(n):
        rows = rng.randint(1, 3)
        shapes.append(tuple(tuple(rng.randrange(len(PARTS)) for _ in range(rng.randint(1, 3)))
                            for _ in range(rows)))
    for shape in shapes:
        env = rng.choice(envs)
        lang = rng.choice(['en', 'de', 'ru'])
        seqs = rng.random() < 0.25
        body = ' \\\\\n  '.join(' & '.join(PARTS[i] for i in row) for row in shape)
        # an empty last row or section: the equation ends with \\\\ or &
        trail = rng.choice(['', '', '', ' \\\\', ' \\\\[1ex]', ' &', ' &&'])
        body += trail
        if env == '\\[':
            eq = '\\[ ' + body + ' \\]'
        elif env == '$$':
            eq = '$$ ' + body + ' $$'
        else:
            eq = '\\begin{' + env + '}\n  ' + body + '\n\\end{' + env + '}'
        pre = 'Before we see\n'
        tex = pre + eq + '\nAfter that.\n'
        c = parsecase.T2T(tex, lang=lang, pack='*', seqs=seqs, files={})
        meta[(tex, lang, seqs)] = (shape, len(pre), len(pre) + len(eq), lang, seqs, trail)
        cases.append((c, None, 'equations'))

    def oracle(c, d, kind, im):
        if im[0] != 'OK' or (c.latex, c.lang, c.seqs) not in meta:
            return None
        shape, a0, b0, lang, seqs, trail = meta[(c.latex, c.lang, c.seqs)]
        lc = settings(lang)
        txt, pos = im[1][1], im[1][2]
        i0 = txt.find('Before we see')
        i1 = txt.find('After that.')
        if i0 < 0 or i1 < 0:
            return 'surrounding text lost: %r' % txt
        mid = txt[i0 + len('Before we see'):i1]
        mpos = pos[i0 + len('Before we see'):i1]
        phs = lc.math_repl_display
        # nothing of the maths source
        plain = mid
        for x in list(phs) + list(lc.math_op_text.values()) + [' for ', 'if ']:
            plain = plain.replace(x, ' ')
        left = re.sub(r'[\s.,;:]', '', plain)
        if left:
            return 'maths source or foreign text in the rendering: %r (%r)' % (left, mid)
        # generated characters map inside the equation
        for ch, q in zip(mid, mpos):
            if not ch.isspace() and not (a0 < q <= b0):
                return ('character %r of the equation maps to %d, outside the '
                        'equation (%d..%d)' % (ch, q, a0 + 1, b0))
        final = None
        flat = ' '.join(PARTS[i] for row in shape for i in row)
        m = re.search(r'([.,;:])(?:\s|\\nonumber|\\label\{l\}|\\,|\\quad|\\;|~|\\ )*$', flat)
        if m:
            final = m.group(1)
        if seqs:
            if mid.strip() not in [x + (final or '') for x in phs]:
                return ('simple mode: %r, expected one placeholder of the display '
                        'collection followed by %r' % (mid.strip(), final or ''))
            return None
        if trail:
            return None     # row structure with an empty last row: model only
        lines = [l for l in mid.strip('\n').split('\n')]
        if len([l for l in lines if l.strip()]) > len(shape) or \
                mid.strip('\n').count('\n') != len(shape) - 1:
            return ('%d rows, rendering has %d lines: %r'
                    % (len(shape), mid.strip('\n').count('\n') + 1, mid))
        if final and not re.search(re.escape(final) + r'\s*$', mid):
            return 'final punctuation %r lost: %r' % (final, mid)
        # leading operator of a non-first section becomes the word
        for r_, row in enumerate(shape):
            for s_, i in enumerate(row):
                part = re.sub(r'^\\(?:text|mbox)\{ +\}\s*', '', PARTS[i])
                if s_ > 0 and part and (part[0] in '=+' or part.startswith('\\leq')):
                    op = part.split()[0]
                    word = lc.math_op_text.get(op, lc.math_op_text[None])
                    if word not in lines[r_]:
                        return ('row %d: leading %r of an aligned section is not '
                                'rendered as %r: %r' % (r_, op, word, lines[r_]))
        return None
    for i in range(0, len(cases), 2000):
        universe.run(cases[i:i + 2000], res, 'equations', project, oracle,
                     sample_rule=lambda c, im: len(meta[(c.latex, c.lang) if (c.latex, c.lang) in meta else (c.latex, c.lang, c.seqs)][0]) > 1)
    switch_stream(rng, res)
    text_parts_stream(rng, res)
    default_args_stream(res)
    known_names_stream(res)


def text_parts_stream(rng, res):
    """arguments of \\text and \\mbox inside an equation are copied with exact
    positions -- in running text, in a footnote, and when the footnote is
    extracted (--extr), with all packages or amsmath alone"""
    cases = []
    for env in ('equation', 'align', 'gather*'):
        eq = ('\\begin{%s} a &= b \\text{ forx } c \\\\ d &= \\mbox{ifx } e. \\end{%s}' % (env, env))
        for tex in ('Start ' + eq + ' end.\n',
                    'Start\\footnote{See ' + eq + ' there} end.\n',
                    'Start\\footnote{See ' + eq + '} end.\n'):
            for extr in ('', 'footnote'):
                for pack in ('*', 'amsmath', 'amsmath,babel'):
                    c = parsecase.T2T(tex, lang='en', pack=pack, extr=extr, files={})
                    cases.append((c, None, 'text-parts'))

    def oracle(c, d, kind, im):
        if im[0] != 'OK':
            return None
        txt, pos = im[1][1], im[1][2]
        if c.extr and 'footnote' not in c.latex:
            return None
        for w in ('forx', 'ifx'):
            k = txt.find(w)
            if k < 0:
                return 'the argument %r of \\text / \\mbox is not in the rendering %r' % (w, txt)
            for i, ch in enumerate(w):
                if c.latex[pos[k + i] - 1] != ch:
                    return ('character %r of the \\text / \\mbox argument maps to %d (%r)'
                            % (ch, pos[k + i], c.latex[pos[k + i] - 1]))
        return None
    universe.run(cases, res, 'text-parts', project, oracle)


def default_args_stream(res):
    """a user macro with a default argument, called without it inside \\text /
    \\mbox of several equations and in the text between them: the text of each
    call maps inside the equation (the \\text argument) that holds the call"""
    cases = []
    meta = {}
    pre = '\\newcommand{\\cond}[1][forx]{#1 }\\newcommand{\\cnd}[2][ifx]{#1 #2}\n'
    for env in ('equation', 'align', '\\['):
        for call in ('\\cond', '\\cond{}', '\\cnd{z}'):
            def eq(k):
                body = ' a_%d &= b \\text{ %s } c. ' % (k, call)
                return '\\[' + body + '\\]' if env == '\\[' else \
                    '\\begin{%s}' % env + body + '\\end{%s}' % env
            tex = pre + 'Start '
            spans = []
            for k in range(3):
                e = eq(k)
                spans.append((len(tex), len(tex) + len(e)))
                tex += e + ' mid %s %d ' % (call, k)
            tex += 'end.\n'
            for pack in ('*', 'amsmath'):
                cases.append((parsecase.T2T(tex, lang='en', pack=pack, files={}), None, 'defaults'))
            meta[tex] = spans

    def oracle(c, d, kind, im):
        if im[0] != 'OK':
            return None
        txt, pos = im[1][1], im[1][2]
        w = 'ifx' if '\\cnd' in c.latex[80:] else 'forx'
        ks = [m.start() for m in re.finditer(w, txt)]
        if len(ks) != 6:
            return 'the default text %r appears %d times, 6 calls: %r' % (w, len(ks), txt)
        for n, k in enumerate(ks):
            if n % 2 == 0:
                a, b = meta[c.latex][n // 2]
                for i in range(len(w)):
                    if not (a < pos[k + i] <= b):
                        return ('default text of the call in equation %d maps to %d, the '
                                'equation spans %d..%d' % (n // 2, pos[k + i], a + 1, b))
        return None
    universe.run(cases, res, 'defaults', project, oracle)


def switch_stream(rng, res):
    """operator words follow the language in force (multi-language mode)"""
    cases = []
    for lg, word in (('russian', 'равно'), ('german', 'gleich'), ('english', 'equal')):
        tex = ('\\usepackage[german,russian,english]{babel}\nText one two three four.\n\n'
               '\\selectlanguage{%s}\nAaa bbb ccc ddd\n\\begin{align}\n a &= b \\\\\n'
               ' c &= d.\n\\end{align}\nEee fff ggg hhh.\n' % lg)
        c = parsecase.T2T(tex, lang='en-GB', pack='*', multi=True, files={})
        cases.append((c, word, 'switch'))

    def oracle(c, word, kind, im):
        if im[0] != 'OK':
            return None
        allt = ' '.join(t for _, t, _ in universe.texts_of(im))
        if allt.count(word) != 2:
            return ('operator word of the language in force (%r) expected twice: %r'
                    % (word, allt))
        return None
    universe.run(cases, res, 'switch', project, oracle)


def two_language_stream(res):
    """displayed equations in English and German passages (multi-language
    mode): each language goes through its own display collection -- the
    placeholders of a language are those the same passages get when the
    passages of the other language are taken out"""
    eq = '\\begin{align}\n a &= b \\\\\n c &= d.\n\\end{align}\n'
    de = ('\\begin{otherlanguage}{german}\nEin langer deutscher Satz mit Worten\n' + eq
          + 'und noch mehr Text hier.\n\\end{otherlanguage}\n\n')
    en = 'A long English sentence with words\n' + eq + 'and some more text here.\n\n'
    head = '\\usepackage[german,english]{babel}\n'

    def seq(tex, lang, key):
        im = parsecase.run_t2t(parsecase.T2T(tex, lang='en-GB', pack='*', multi=True, files={}))
        if im[0] != 'OK':
            return None
        phs = list(settings(key).math_repl_display)
        txt = ' '.join(t for lg, t, p in universe.texts_of(im) if lg == lang)
        return re.findall('|'.join(re.escape(x) for x in phs), txt)
    cases = []
    for order in ('ED', 'DE', 'EDE', 'DED', 'EEDD'):
        tex = head + ''.join(de if ch == 'D' else en for ch in order)
        cases.append((parsecase.T2T(tex, lang='en-GB', pack='*', multi=True, files={}), order,
                      'two-languages'))

    def oracle(c, order, kind, im):
        if im[0] != 'OK':
            return None
        for lang, key, ch, passage in (('en-GB', 'en', 'E', en), ('de-DE', 'de', 'D', de)):
            phs = list(settings(key).math_repl_display)
            txt = ' '.join(t for lg, t, p in universe.texts_of(im) if lg == lang)
            got = re.findall('|'.join(re.escape(x) for x in phs), txt)
            want = seq(head + passage * order.count(ch), lang, key)
            if want is not None and got != want:
                return ('%s equations receive %r; without the passages of the other language '
                        'they receive %r' % (lang, got, want))
        return None
    universe.run(cases, res, 'two-languages', project, oracle)


def redefined_operator_stream(res):
    """an operator macro that the document (or --defs) redefines is still an
    operator at the head of an aligned section"""
    cases = []
    for defs_in_doc in (True, False):
        for mac, new in (('\\le', '\\leqslant'), ('\\leq', '\\leqslant'), ('\\cdot', '\\bullet')):
            d = '\\renewcommand{%s}{%s}\n' % (mac, new)
            tex = ('Before we see\n\\begin{align}\n  a &%s b, \\\\\n  c &%s d.\n\\end{align}\nAfter that.\n'
                   % (mac, mac))
            for lang in ('en', 'de'):
                c = parsecase.T2T((d if defs_in_doc else '') + tex, lang=lang, pack='*',
                                  defs='' if defs_in_doc else d, files={})
                cases.append((c, (mac, lang), 'redefined-operator'))

    def oracle(c, meta, kind, im):
        if im[0] != 'OK':
            return None
        mac, lang = meta
        lc = settings(lang)
        word = lc.math_op_text.get(mac, lc.math_op_text[None])
        txt = im[1][1]
        if txt.count(word) != 2:
            return ('the redefined operator %s at the head of two aligned sections is rendered '
                    'as %r: %r' % (mac, word, txt))
        return None
    universe.run(cases, res, 'redefined-operator', project, oracle)


def run(tier, seed, build, res):
    _run_own(tier, seed, build, res)
    two_language_stream(res)
    redefined_operator_stream(res)
    # snippets of /repo's own tests and their mutations (harness/seeds.py)
    universe.run_seeds(random.Random(seed + 7), res, project, tier, share=0.6)


def replay(payload, build, res):
    j = payload.get('case') or {}
    if 'latex' not in j:
        return False
    universe.run([(parsecase.T2T.from_json(j), None, 'replay')], res, 'replay',
                 project, lambda *a: None)
    return not res.disagreements
