"""C13 -- phrase replacement keeps text and position map consistent.

Correspondence: yalafi.utils.replace_phrases  vs  extracted model
(coq/model/Replace.v).  Oracle: a declarative reference written from the
property text (all separators enumerated, no determinism shortcut)."""
import itertools, random
import core
from yalafi import utils, tex2txt

PROP_FILE = 'props/C13.v'

ALPHA = ['a', 'b', ' ', '\t', '\n', '.', 'é']
RULES = [
    ['a & x'], ['a b & x y'], ['a b &'], ['a. & b'], ['. & xx'],
    ['b a & a'], ['é & e'], ['a & a a a'], ['a\tb & c'], ['a&b'],
    ['# a & x'], ['& x'], ['a # & x'], ['a & b', 'b & a a'],
    ['a b a & .', '. & a'], ['.a & b.'], ['a . & '],
]


def fake_pos(n):
    return [(7 * i + 3) % 11 - 2 for i in range(n)]


# ---------------- reference semantics (oracle) ----------------

def isw(c):
    return c.isalnum() or c == '_'


def bnd(s, i):
    return (i > 0 and isw(s[i - 1])) != (i < len(s) and isw(s[i]))


def lang_ends(ws, s, i):
    """all e such that s[i:e] is w1 SEP w2 ... wn with SEP a non-empty string
    of blanks/tabs with at most one line break"""
    ends = set()

    def go(k, i):
        w = ws[k]
        if not s.startswith(w, i):
            return
        j = i + len(w)
        if k == len(ws) - 1:
            ends.add(j)
            return
        a = j
        while a < len(s) and s[a] in ' \t':
            a += 1
        for e in range(j + 1, a + 1):
            go(k + 1, e)
        for x in range(j, a + 1):
            if x < len(s) and s[x] == '\n':
                c = x + 1
                while c < len(s) and s[c] in ' \t':
                    c += 1
                for e in range(x + 1, c + 1):
                    go(k + 1, e)
    go(0, i)
    return ends


def ref_rule(line):
    i = line.find('#')
    if i >= 0:
        line = line[:i]
    ws = line.split()
    if '&' in ws:
        k = ws.index('&')
        return ws[:k], ' '.join(ws[k + 1:])
    return ws, ''


def ref_replace(txt, pos, lines):
    for line in lines:
        ws, repl = ref_rule(line)
        if not ws:
            continue
        bs = ws[0][0].isalpha()
        be = ws[-1][-1].isalpha()
        otxt, opos = '', []
        i = 0
        n = len(txt)
        while i < n:
            ends = lang_ends(ws, txt, i) if (not bs or bnd(txt, i)) else set()
            ends = set(e for e in ends if not be or bnd(txt, e))
            if len(ends) > 1:
                return None         # ambiguous: the reference does not decide
            if ends:
                e = ends.pop()
                m = e - i
                r = len(repl)
                otxt += repl
                if r <= m:
                    opos += pos[i:i + r]
                else:
                    opos += pos[i:e] + [pos[e - 1]] * (r - m)
                i = e
            else:
                otxt += txt[i]
                opos.append(pos[i])
                i += 1
        txt, pos = otxt, opos
    return txt, pos


# ---------------- running ----------------

def impl(txt, pos, lines):
    try:
        t, p = utils.replace_phrases(txt, list(pos), list(lines))
        return ('OK', t, list(p))
    except Exception as e:
        return ('EXC', type(e).__name__)


def model_line(txt, pos, lines):
    return 'replace_phrases %s %s %s' % (
        core.enc_str(txt), core.enc_ints(pos),
        core.enc_list(lines, core.enc_str))


def parse_model(out):
    r = core.Reader(out)
    tag = r.word()
    if tag == 'OK':
        t = r.str()
        p = r.ints()
        return ('OK', t, p)
    if tag == 'EXC':
        return ('EXC', r.word())
    return (tag,)


def check_cases(cases, res, stream):
    """cases: list of (txt, pos, lines)"""
    outs = core.run_model([model_line(*c) for c in cases])
    for c, o in zip(cases, outs):
        txt, pos, lines = c
        im = impl(txt, pos, lines)
        mo = parse_model(o)
        changed = im[0] == 'OK' and im[1] != txt
        res.count(stream, c, nontrivial=changed)
        res.dist('replaced' if changed else 'unchanged')
        res.dist('rules=%d' % len(lines))
        if changed:
            res.sample({'txt': txt, 'pos': pos, 'lines': lines,
                        'out': [im[1], im[2]]})
        if im != mo:
            res.disagreements.append((stream, case_json(c), repr(im),
                                      repr(mo)))
        bad = oracle(c, im)
        if bad:
            res.failures.append((key_of(c), case_json(c), bad))


def oracle(c, im):
    txt, pos, lines = c
    if im[0] != 'OK':
        if len(pos) == len(txt):
            return 'replace_phrases raised %s' % im[1]
        return None
    if len(im[1]) != len(im[2]):
        return 'lengths differ: %d characters, %d positions' % (
            len(im[1]), len(im[2]))
    if len(pos) != len(txt):
        return None
    ref = ref_replace(txt, list(pos), lines)
    if ref is None:
        return None
    if (im[1], im[2]) != ref:
        return ('output differs from the reference semantics of the property:'
                ' got %r, expected %r' % ((im[1], im[2]), ref))
    return None


def case_json(c):
    return {'txt': c[0], 'pos': list(c[1]), 'lines': list(c[2])}


def key_of(c):
    return 'replace:%r:%r:%r' % (c[0], list(c[1]), list(c[2]))


def gen_exhaustive(maxlen):
    for n in range(maxlen + 1):
        for t in itertools.product(ALPHA, repeat=n):
            yield ''.join(t)


RAND_ALPHA = list('abcxyzABZ019_ .,;:!?()[]{}*+|^$\\-"\'') + [
    ' ', ' ', ' ', '\t', '\n', '\n', ' ', ' ', ' ', 'é',
    'ß', 'Ж', '中', '\U0001d400', '́', '#', '&', '\r']


def gen_random(rng, n):
    for _ in range(n):
        ln = rng.choice([0, 1, 3, 8, 20, 60])
        txt = ''.join(rng.choice(RAND_ALPHA) for _ in range(ln))
        # bias towards repeated words
        words = [w for w in txt.split() if w]
        if words and rng.random() < 0.7:
            extra = ' '.join(rng.choice(words) for _ in range(rng.randint(1, 6)))
            txt = txt + rng.choice([' ', '\n', ' \n ', '\n\n', '']) + extra
        pos = [rng.randint(-5, 200) for _ in txt]
        lines = []
        for _ in range(rng.choice([1, 1, 1, 2, 3])):
            words = [w for w in txt.split() if w]
            if words and rng.random() < 0.85:
                k = rng.randint(1, min(3, len(words)))
                s = rng.randrange(len(words) - k + 1)
                lhs = words[s:s + k]
            else:
                lhs = [''.join(rng.choice(RAND_ALPHA).strip() or 'q'
                               for _ in range(rng.randint(1, 3)))
                       for _ in range(rng.randint(0, 2))]
            rhs = ''.join(rng.choice(RAND_ALPHA) for _ in
                          range(rng.choice([0, 0, 1, 2, 5, 12])))
            sep = rng.choice([' ', '  ', '\t'])
            line = sep.join(lhs) + rng.choice([' & ', ' &', '& ', ' & ', ''
                                               ]) + rhs
            if rng.random() < 0.1:
                line = line.replace(' ', ' # ', 1)
            lines.append(line + rng.choice(['', '\n']))
        yield (txt, pos, lines)


def e2e(rng, res, n):
    """replacements applied through tex2txt(): single text and main-language
    parts of the multi-language mode"""
    docs = ['so dass wir\nso  dass. A so\n\ndass B',
            'A \\foreignlanguage{german}{so dass so dass so dass} so dass C',
            'x $a$ so  dass y % c\n so\tdass\n\n so\n\n dass']
    rules = [['so dass & sodass'], ['so dass & s'], ['so dass & so dass dass']]
    # passages in other languages, among them variants of the main language
    # and languages without parser settings of their own: not rewritten
    other = ('\\usepackage{babel}A so dass B\n\\begin{otherlanguage}{french}so dass voila so dass encore plus '
             'de mots\\end{otherlanguage}\nC so dass\n\\begin{otherlanguage}{american}so dass color so dass '
             'more words here\\end{otherlanguage}\nD \\foreignlanguage{german}{so dass eins zwei drei vier '
             'so dass} E so dass')
    docs = [(d, 'en') for d in docs] + [(other, 'en-GB'), (other, 'en-US'), (other, 'de-DE'), (other, 'fr')]
    for d, mainlang in docs:
        for r in rules:
            for ml in (False, True):
                o0 = tex2txt.Options(lang=mainlang, pack='*')
                o1 = tex2txt.Options(lang=mainlang, pack='*', repl=r)
                a = tex2txt.tex2txt(d, o0, multi_language=ml)
                b = tex2txt.tex2txt(d, o1, multi_language=ml)
                res.count('e2e', (d, r, ml))
                if not ml:
                    exp = utils.replace_phrases(a[0], [p - 1 for p in a[1]], r)
                    exp = (exp[0], [p + 1 for p in exp[1]])
                    if (b[0], b[1]) != exp:
                        res.failures.append((
                            'e2e:%r:%r' % (d, r),
                            {'latex': d, 'repl': r},
                            'tex2txt(repl) differs from replace_phrases on '
                            'its plain output'))
                    if len(b[0]) != len(b[1]):
                        res.failures.append(('e2e-len:%r' % d, {'latex': d},
                                             'length mismatch'))
                else:
                    for lang in b:
                        for k, part in enumerate(b[lang]):
                            if len(part[0]) != len(part[1]):
                                res.failures.append((
                                    'e2e-ml:%r' % d, {'latex': d},
                                    'length mismatch in part'))
                            # a main-language part: replace_phrases applied to the
                            # part of the run without replacements
                            if lang in a and k < len(a[lang]) and lang != mainlang:
                                pa = a[lang][k]
                                if (part[0], list(part[1])) != (pa[0], list(pa[1])):
                                    res.failures.append((
                                        'e2e-ml-other:%r:%r:%s' % (d, r, mainlang),
                                        {'latex': d, 'repl': r, 'multi': True, 'lang': mainlang},
                                        'main language %s: part %d of language %s is rewritten by the '
                                        'replacement list: %r, without the list %r'
                                        % (mainlang, k, lang, part[0][:40], pa[0][:40])))
                            if lang in a and k < len(a[lang]) and lang == mainlang:
                                pa = a[lang][k]
                                exp = utils.replace_phrases(pa[0], list(pa[1]), r)
                                if (part[0], list(part[1])) != (exp[0], list(exp[1])):
                                    res.failures.append((
                                        'e2e-ml-pos:%r:%r' % (d, r), {'latex': d, 'repl': r, 'multi': True},
                                        'multi-language part %d of %s: text/positions %r, '
                                        'replace_phrases on the part without replacements gives %r'
                                        % (k, lang, (part[0][:30], list(part[1])[:8]),
                                           (exp[0][:30], list(exp[1])[:8]))))


def file_rules(res):
    """rules read from a file (tex2txt.read_replacements, option --repl) are
    applied wherever they match, every time: in each main-language part of the
    multi-language mode, and in every document handled with the same options"""
    import os, shellrun
    universe = __import__('universe')
    universe.scratch_dir()
    with open('c13rules.txt', 'w', encoding='utf-8') as f:
        f.write('# comment\n\nso dass & sodass\nzum Beispiel & z. B.\n')
    rules = tex2txt.read_replacements('c13rules.txt', 'utf-8')
    o = tex2txt.Options(lang='en-GB', pack='*', repl=rules)
    doc1 = 'Eins so dass zwei, zum Beispiel drei.\n'
    doc2 = 'Vier so dass five.\n'
    for k, d in enumerate((doc1, doc2, doc1)):
        t = tex2txt.tex2txt(d, o)[0]
        res.count('file-rules', ('api', k))
        if 'so dass' in t or 'zum Beispiel' in t:
            res.failures.append(('c13-file:api:%d' % k, {'latex': d, 'call': k},
                                 'call %d with one options object: phrases of the rule file '
                                 'are not replaced: %r' % (k + 1, t)))
    ml = ('\\usepackage{babel}Part one so dass here and more words.\n'
          '\\begin{otherlanguage}{german}\nEin langer deutscher Satz mit vielen Worten hier.\n'
          '\\end{otherlanguage}\nPart two so dass again, zum Beispiel this, and more words.\n')
    rc, out, err, files = shellrun.run_filter(
        ['--repl', 'r.txt', '--mula', 'out', '--lang', 'en-GB', 'in.tex'],
        files={'in.tex': ml, 'r.txt': 'so dass & sodass\nzum Beispiel & z. B.\n'})
    res.count('file-rules', ('cli-mula',))
    eng = ' '.join(v for k, v in sorted(files.items()) if k.startswith('out.') and k.endswith('en-GB'))
    if rc != 0 or 'so dass' in eng or 'zum Beispiel' in eng or eng.count('sodass') != 2:
        res.failures.append(('c13-file:cli-mula', {'latex': ml, 'cli': 'mula'},
                             'python -m yalafi --repl --mula: the main-language parts are %r, '
                             'every occurrence of the phrases has to be replaced' % eng))


def run(tier, seed, build, res):
    rng = random.Random(seed)
    res.rule = ('exhaustive texts over %r up to length L x %d rule lists '
                '(positions a fixed non-monotone sequence); random texts up '
                'to ~120 characters over letters, digits, regex '
                'metacharacters, Unicode spaces with rules cut from the text; '
                'a case is non-trivial when the text was changed' %
                (ALPHA, len(RULES)))
    maxlen = 4 if tier == 'quick' else 6
    nrand = 3000 if tier == 'quick' else 60000
    cases = []
    for t in gen_exhaustive(maxlen):
        p = fake_pos(len(t))
        for r in RULES:
            cases.append((t, p, r))
    res.extra['exhaustive_maxlen'] = maxlen
    for i in range(0, len(cases), 50000):
        check_cases(cases[i:i + 50000], res, 'exhaustive')
    rc = list(gen_random(rng, nrand))
    check_cases(rc, res, 'random')
    # corpus
    cc = core.load_corpus('C13')
    check_cases([(c['txt'], c['pos'], c['lines']) for c in cc], res, 'corpus')
    e2e(rng, res, 0)
    file_rules(res)


def replay(payload, build, res):
    c = payload.get('case')
    if not c or 'txt' not in c:
        return False
    check_cases([(c['txt'], c['pos'], c['lines'])], res, 'replay')
    return not res.disagreements
