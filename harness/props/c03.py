"""C03 -- prose is conserved: typeset words appear once, in order; hidden text
never leaks.

Correspondence on the parser stream (the texts); oracle: the marker words of
well-formed documents appear exactly once, main flow in source order,
detached flows (footnotes, captions) behind it in order of appearance; text
of comments, skip regions, \\LTskip, labels, keys, file names, removed
environments never appears; no control sequence is left."""
import random, re
import core, parsecase, universe

PROP_FILE = 'props/C03.v'

HIDDEN = ['hidden', 'secret', 'gone', 'decoy', 'idx ', 'sec:', 'file.png',
          'cmt', 'note', 'width=', '3cm', 'draw', 'node', 'unused']
MARK = re.compile(r'[qxzjQXZJ]{2,4}\d+k[éßяü]?')


def project(r):
    if r[0] != 'OK':
        return (r[0],)
    return ('OK', [(lang, t) for lang, t, p in universe.texts_of(r)])


def oracle(c, d, kind, im):
    if im[0] != 'OK' or c.unkn or d is None or kind != 'doc' or c.extr or c.nosp:
        return None
    texts = universe.texts_of(im)
    allt = '\n'.join(t for _, t, _ in texts)
    for h in HIDDEN:
        if h in ('file.png', 'width=', '3cm', 'hidden', 'draw', 'node') \
                and '*' not in (c.pack or ''):
            continue        # needs graphicx / tikz to be loaded
        if h in ('secret',) and c.nosp:
            continue        # skip comments are switched off
        if h in allt:
            return 'hidden text %r appears in the output' % h
    # (a replacement list may itself insert a backslash: 'a b & c\\d')
    if not any('\\' in x for x in (c.repl or [])) and re.search(r'\\[A-Za-z]', allt):
        return 'control sequence left in the output: %r' % re.search(
            r'\\[A-Za-z]+', allt).group(0)
    # each word once
    found = MARK.findall(allt)
    # a word under an accent macro loses its first letter to the accent (or
    # vanishes with the error mark when Unicode has no such character)
    acc = set(d.accented)
    tails = set(w[1:] for w in acc) | set(w[2:] for w in acc)
    found = [w for w in found if w not in acc and w not in tails]
    want = [w for w, _ in d.words if w not in acc]
    if sorted(found) != sorted(want):
        miss = [w for w in want if found.count(w) != 1]
        extra = [w for w in found if w not in want]
        return ('words of the document that do not appear exactly once: %r; '
                'unexpected: %r' % (miss[:5], extra[:5]))
    bad = glued(c, d, allt, acc)
    if bad:
        return bad
    if not c.multi:
        flows = {}
        for w, _ in d.words:
            if w in acc:
                continue
            flows.setdefault(d.word_flow[w], []).append(w)
        order = flows.get(0, [])
        for f in sorted(k for k in flows if k):
            order += flows[f]
        if found != order:
            k = next(i for i in range(len(order)) if found[i] != order[i])
            return ('order of the words differs at %d: got %r, expected %r '
                    '(main flow first, then footnotes/captions in order)'
                    % (k, found[k:k + 3], order[k:k + 3]))
    return None


def glued(c, d, allt, acc):
    """a word that stands free in the source (white space on a side) is not
    glued to generated or neighbouring text on that side"""
    src = c.latex
    for w, o in d.words:
        if w in acc or allt.count(w) != 1:
            continue
        k = allt.find(w)
        # (blanks directly behind a control word do not count, as in TeX)
        before_free = o > 0 and src[o - 1].isspace() and not re.search(
            r'\\[A-Za-z@]+[ \t]*\n?[ \t]*$', src[max(0, o - 40):o])
        e = o + len(w)
        after_free = e < len(src) and src[e].isspace()
        if before_free and k > 0 and allt[k - 1].isalnum():
            return ('word %r is glued to %r in front of it (white space in the source)'
                    % (w, allt[max(0, k - 8):k]))
        if after_free and k + len(w) < len(allt) and allt[k + len(w)].isalnum():
            return ('word %r is glued to %r behind it (white space in the source)'
                    % (w, allt[k + len(w):k + len(w) + 8]))
    return None


DIRECTED = [
    # escaped specials in titles, options and arguments stay literal text
    ('\\begin{proof}[Why \\$5 and \\$7 suffice] Body text. \\end{proof} After.', {}),
    ('\\newtheorem{thm}{Theorem}\\begin{thm}[Name \\{a, b\\} \\& c] T \\end{thm} U', {}),
    ('\\section[short \\$ t]{Long \\$5 title \\{x\\}} Text', {}),
    ('\\begin{figure}\\caption[\\$]{Cap \\$ text \\_ x}\\end{figure} T', {}),
    ('\\begin{itemize}\\item[\\$5] body \\item[\\{] b\\end{itemize}', {}),
    ('A\\footnote{costs \\$5 and \\$7} B \\textbf{\\$ \\{ \\}} C', {}),
    ('\\begin{proof}[\\$] P \\end{proof} \\begin{proof}[a\\footnote{n}] Q \\end{proof} R', {}),
    ('A\\footnote{first} \\LTinput{defs.tex} B\\footnote{second} C', {}),
    ('\\usepackage{glossaries}\\LTinput{main.glsdefs}\n\\Gls{ex} and \\gls{ex}, '
     '\\Glspl{pp} and \\glspl{pp}', {}),
    # macros inside a glossary entry keep their names under every variant
    ('\\usepackage{glossaries}\\LTinput{main.glsdefs}\nA \\GLS{tx} B \\Gls{tx} C \\GLSpl{tx} D '
     '\\GLSdesc{tx} E', {}),
    # a label takes the punctuation mark of the text before it, nothing else
    ('\\begin{itemize}\n\\item Run \\verb|make install.|\n\\item[Note] more text\n\\end{itemize}\n', {}),
    ('\\newtheorem{thm}{Theorem}\\begin{thm}[Title here] Text. \\end{thm}\n'
     '\\begin{itemize}\\item[Lab] x\\end{itemize}', {}),
]


# arguments that LaTeX does not typeset (position, column specification)
FORBID = {
    'A \\begin{tabular}[t]{ll} xa & ya \\end{tabular} B': ['t]', 'll', '['],
    'A \\begin{tabular}{|l|r|} xa & ya \\end{tabular} B': ['|l', 'r|'],
    'A \\begin{tabular}[b]{lp{3cm}} xa & ya \\end{tabular} B': ['b]', 'lp', '3cm'],
    'A \\begin{minipage}[t]{5cm} xa ya \\end{minipage} B': ['t]', '5cm', '['],
    'A \\begin{minipage}[c][3cm][t]{5cm} xa ya \\end{minipage} B': ['c]', '3cm', 't]', '5cm', '['],
    'A \\begin{minipage}{0.5\\linewidth} xa ya \\end{minipage} B': ['0.5'],
    '\\begin{thebibliography}{99}\\bibitem[Kn84]{knuth} xa ya \\bibitem{lamport} B\\end{thebibliography}':
        ['Kn84', 'knuth', 'lamport', '99', ']'],
}
DIRECTED += [(k, {}) for k in FORBID]

# skip marks that carry a remark, blanks or a tab on the mark line, at the
# beginning, in the middle and at the end of the text, inside a footnote, two
# regions in one text: the region never reaches the output
SKIP_TAILS = ['', ' (generated table)', '   ', '\t', ' % x', ': secret note', '-1']
DIRECTED += [(pre + '%%% LT-SKIP-BEGIN' + a + '\nsecret hidden \\foo $\n%%% LT-SKIP-END' + b
              + '\n' + post, {})
             for a in SKIP_TAILS for b in SKIP_TAILS[:4]
             for pre, post in (('', 'Alpha beta.\n'), ('Alpha.\n', 'Beta gamma.\n'),
                               ('Alpha beta.\n', ''),
                               ('A\\footnote{one\n', 'two} B.\n'))]
DIRECTED += [('Alpha.\n%%% LT-SKIP-BEGIN\nsecret\n%%% LT-SKIP-END\nBeta.\n'
              '%%% LT-SKIP-BEGIN (table)\nhidden gone\n%%% LT-SKIP-END (table)\nGamma.\n', {})]


def oracle_all(c, d, kind, im):
    if kind == 'directed' and im[0] == 'OK':
        t = '\n'.join(x for _, x, _ in universe.texts_of(im))
        for bad in FORBID.get(c.latex, []):
            if bad in t:
                return ('argument of the construct that is not typeset appears in the '
                        'output (%r): %r' % (bad, t))
        if 'LT-SKIP-BEGIN' in c.latex:
            for h in ('secret', 'hidden', 'gone', 'foo'):
                if h in t:
                    return ('text of a skipped region (%r) appears in the output: %r'
                            % (h, t))
        if c.latex in FORBID and not ('xa' in t and 'ya' in t):
            return 'text of the table cells lost: %r' % t
        if 'first' in c.latex and not ('first' in t and 'second' in t
                                       and 'file foot' not in t):
            return 'footnote text lost or text of the \\LTinput file emitted: %r' % t
        if '\\Gls{ex}' in c.latex and 'Example and example' not in t:
            return 'glossary text: %r' % t
        if '\\Glspl{pp}' in c.latex and 'Ppms and ppms' not in t:
            return 'glossary text: %r' % t
        if '\\GLS{tx}' in c.latex and t.count('TeX') != 4:
            return 'the macro inside the glossary entry is lost under a variant: %r' % t
        if 'make install.' in c.latex and (t.count('make install.') != 1 or t.count('make') != 1):
            return 'verbatim text repeated or lost next to an item label: %r' % t
    return oracle(c, d, kind, im)


def run(tier, seed, build, res):
    rng = random.Random(seed)
    res.rule = ('parser stream, well-formed documents weighted x options; '
                'oracle on documents without extraction list: marker words '
                'exactly once and in flow order, %d hidden strings never, no '
                'control sequence; non-trivial = well-formed document with '
                'words' % len(HIDDEN))
    n = 600 if tier == 'quick' else 20000
    cases = list(universe.gen_cases(rng, n, kinds=('doc', 'doc', 'doc', 'insert')))
    for latex, o in DIRECTED:
        cases.append((parsecase.T2T(latex, files=dict(universe.FILES), **o), None,
                      'directed'))
    for j in core.load_corpus('C03'):
        cases.append((parsecase.T2T.from_json(j), None, 'corpus'))
    for i in range(0, len(cases), 2000):
        universe.run(cases[i:i + 2000], res, 'parser', project, oracle_all,
                     sample_rule=lambda c, im: True)
    universe.heading_finding('C03', res)


def replay(payload, build, res):
    j = payload.get('case') or {}
    if 'latex' not in j:
        return False
    universe.run([(parsecase.T2T.from_json(j), None, 'directed')], res, 'replay',
                 project, oracle_all)
    return not res.disagreements
