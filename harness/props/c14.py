"""C14 -- a proofreader match is reported at the flagged word in the LaTeX file.

Correspondence: `python -m yalafi.shell` of /repo (all output modes and the
server emulation, fake proofreader) vs the model pipeline run_report
(coq/model/Reports.v, ShellMap.v).  Oracle: the flagged marker word has to be
reported at its own line / column / length in the source, the same in all
modes, messages ordered by source position, each part submitted under its
language with the configured rule options."""
import json, os, random, re, socket, subprocess, time, urllib.parse, urllib.request
import core, shellrun, shellcase
from gens import docs

PROP_FILE = 'props/C14.v'


def linecol(tex, off):
    lin = tex.count('\n', 0, off) + 1
    col = off - (tex.rfind('\n', 0, off) + 1) + 1
    return lin, col


def make_case(rng, idx):
    lang = rng.random() < 0.5
    d = docs.gen_doc(rng, depth=2, lang=lang)
    tex = d.text
    if rng.random() < 0.3:
        tex = tex.rstrip('\n')          # the shell appends the line break
    multi = lang and rng.random() < 0.7
    language = rng.choice(['en-GB', 'de-DE'])
    mlc = rng.choice([0, 1, 2, 3])
    tex2, parts = shellcase.shell_parts(tex, language, multi, mlc)
    words = dict((w, o) for w, o in d.words)
    answers = []
    expected = []
    mid = 0
    for lang_, plain, cm in parts:
        if not plain.strip():
            continue
        present = [(plain.find(w), w) for w in words if plain.find(w) >= 0]
        rng.shuffle(present)
        ms = []
        for off, w in present[:rng.choice([0, 1, 1, 2, 3, 6])]:
            ms.append(shellcase.lt_match(plain, off, len(w), rule='R%d' % mid,
                                         msg='M%d on %s' % (mid, w)))
            expected.append((words[w], w, 'R%d' % mid))
            mid += 1
        answers.append(json.dumps({'software': {'name': 'fake'},
                                   'matches': ms}).encode('utf-8'))
    if not answers:
        answers = [b'{"matches": []}']
    expected.sort(key=lambda e: e[0])
    return {'tex': tex, 'tex2': tex2, 'parts': parts, 'answers': answers,
            'expected': expected, 'multi': multi, 'language': language,
            'mlc': mlc, 'idx': idx}


def repeated_case(rng, idx):
    """the same foreign phrase several times: identical parts, identical
    answers; each occurrence has to be reported at its own place"""
    w = rng.choice(['Fehlerr', 'Wortx', 'dasz'])
    k = rng.randint(2, 4)
    tex = '\\usepackage[german,english]{babel}\n'
    offs = []
    for i in range(k):
        tex += 'Abc%d def \\foreignlanguage{german}{' % i
        offs.append(len(tex))
        tex += w + '} ghi.' + rng.choice(['\n', ' ', '\n\n'])
    tex += 'End.\n'
    tex2, parts = shellcase.shell_parts(tex, 'en-GB', True, 0)
    answers = []
    for lang_, plain, cm in parts:
        if not plain.strip():
            continue
        ms = []
        if plain.strip() == w:
            ms.append(shellcase.lt_match(plain, plain.find(w), len(w),
                                         rule='RW', msg='M on ' + w))
        answers.append(json.dumps({'matches': ms}).encode('utf-8'))
    return {'tex': tex, 'tex2': tex2, 'parts': parts, 'answers': answers,
            'expected': [(o, w, 'RW') for o in offs], 'multi': True,
            'language': 'en-GB', 'mlc': 0, 'idx': idx}


def shell_args(c, mode):
    a = ['--language', c['language'], '--ml-continue-threshold', str(c['mlc']),
         '--ml-rule-threshold', '2', '--ml-disable', 'MLD',
         '--ml-disablecategories', 'MLC', '--disable', 'DIS']
    if c['multi']:
        a.append('--multi-language')
    if mode != 'server':
        a += ['--output', mode]
    return a


def check_lt_calls(c, r, mode='plain'):
    """each part is submitted under its own language with the rule options"""
    bad = []
    nonblank = [(l, p) for l, p, _ in c['parts'] if p.strip()]
    if len(r.calls) != len(nonblank):
        return ['%d proofreader calls for %d non-blank parts'
                % (len(r.calls), len(nonblank))]
    for (lang, plain), call in zip(nonblank, r.calls):
        argv = call['argv']
        if call['text'] != plain:
            bad.append('submitted text differs from the part')
        if '--language' not in argv or argv[argv.index('--language') + 1] != lang:
            bad.append('part of language %s submitted as %r' % (lang, argv))
        if mode == 'server':
            continue    # rule options come from the request fields there
        short = c['multi'] and len(plain.split()) <= 2
        want = 'DIS,MLD' if short else 'DIS'
        if '--disable' not in argv or argv[argv.index('--disable') + 1] != want:
            bad.append('rule options %r, expected --disable %s' % (argv, want))
        wantc = 'MLC' if short else None
        gotc = (argv[argv.index('--disablecategories') + 1]
                if '--disablecategories' in argv else None)
        if gotc != wantc:
            bad.append('category options %r, expected %r' % (gotc, wantc))
    return bad


def eval_mode(c, mode, r, mo, res):
    """compare one run with oracle and model; returns failure text or None"""
    tex = c['tex2']
    exp = []
    for off, w, rid in c['expected']:
        lin, col = linecol(tex, off)
        exp.append((off, len(w), lin, col, w))
    oc = shellcase.shell_outcome(r)
    if oc != 'OK':
        return 'shell outcome %s: %s' % (oc, r.err[-300:]), None
    out = r.out.decode('utf-8')
    got_model = None
    try:
        if mode == 'plain':
            got = shellcase.parse_plain(out)
            want = [(e[2], e[3]) for e in exp]
            got_model = got
            mwant = [(l[3], l[4]) for l in mo[1]] if mo[0] == 'OK' else None
        elif mode == 'json':
            got = shellcase.parse_json(out)
            want = []
            for off, ln, lin, col, w in exp:
                l2, c2 = linecol(tex, off + ln - 1)
                want.append((off, ln, lin - 1, col - 1, l2 - 1, c2))
            mwant = [l[1:7] for l in mo[1]] if mo[0] == 'OK' else None
            got_model = got
        elif mode in ('xml', 'xml-b'):
            got = shellcase.parse_xml(out)
            want = []
            for off, ln, lin, col, w in exp:
                l2, c2 = linecol(tex, off + ln - 1)
                if mode == 'xml-b':
                    ls = tex.rfind('\n', 0, off) + 1
                    fx = len(tex[ls:off].encode('utf-8'))
                    le = tex.rfind('\n', 0, off + ln - 1) + 1
                    tx = len(tex[le:off + ln].encode('utf-8'))
                    want.append((lin - 1, fx, l2 - 1, tx))
                else:
                    want.append((lin - 1, col - 1, l2 - 1, c2))
            mwant = [l[3:7] for l in mo[1]] if mo[0] == 'OK' else None
            got_model = got
        elif mode == 'html':
            cells = shellcase.html_cells(out)
            got = []
            want = []
            for off, ln, lin, col, w in exp:
                want.append((lin, w))
                hit = [n for n, cell in cells
                       if n == lin and w in shellcase.html_highlights(cell)]
                got.append((hit[0] if hit else None, w))
            mwant = None
            if mo[0] != 'OK':
                return None, ('model outcome %r but the shell wrote a report'
                              % (mo,))
        elif mode == 'server':
            got = [(m['offset'], m['length']) for m in json.loads(out)['matches']]
            want = [(e[0], e[1]) for e in exp]
            mwant = [(l[1], l[2]) for l in mo[1]] if mo[0] == 'OK' else None
            got_model = got
    except Exception as e:
        return 'report cannot be parsed: %r' % e, None
    fail = None
    if got != want:
        fail = ('mode %s reports %r, the flagged words stand at %r'
                % (mode, got, want))
    dis = None
    if mwant is not None and got_model != mwant:
        dis = 'mode %s: shell %r, model %r' % (mode, got_model, mwant)
    if mo[0] != 'OK' and mode != 'html':
        dis = 'model outcome %r' % (mo,)
    return fail, dis


class Server:
    def __init__(self, c):
        self.dir = shellrun.scratch('srv')
        s = socket.socket()
        s.bind(('localhost', 0))
        self.port = s.getsockname()[1]
        s.close()
        self.ctrl = os.path.join(self.dir, 'fake_ctrl.json')
        self.log = os.path.join(self.dir, 'fake_log.jsonl')
        cmd = [core.PY, '-m', 'yalafi.shell', '--no-config', '--lt-command',
               '%s %s %s' % (core.PY, shellrun.FAKE, self.ctrl),
               '--as-server', str(self.port)] + shell_args(c, 'server') \
            + list(c.get('extra_args', []))
        self.set_answers(c['answers'])
        self.p = subprocess.Popen(cmd, cwd=self.dir, env=core.repo_env(),
                                  stdout=subprocess.PIPE, stderr=subprocess.PIPE)
        for _ in range(100):
            try:
                socket.create_connection(('localhost', self.port), 0.2).close()
                break
            except OSError:
                time.sleep(0.05)

    def set_answers(self, answers):
        import base64
        json.dump({'answers': [base64.b64encode(a).decode() for a in answers],
                   'log': self.log}, open(self.ctrl, 'w'))
        if os.path.exists(self.log):
            os.remove(self.log)

    def post(self, text, language, extra=None):
        fields = {'text': text, 'language': language}
        fields.update(extra or {})
        data = urllib.parse.urlencode(fields).encode('ascii')
        req = urllib.request.Request('http://localhost:%d/v2/check' % self.port,
                                     data=data)
        with urllib.request.urlopen(req, timeout=60) as f:
            out = f.read()
        calls = []
        if os.path.exists(self.log):
            calls = [json.loads(l) for l in open(self.log, encoding='utf-8')]
        return shellrun.ShellResult(0, out, '', calls)

    def close(self):
        import shutil
        self.p.kill()
        self.p.wait()
        shutil.rmtree(self.dir, ignore_errors=True)


def run_case(c, modes):
    out = {}
    for mode in modes:
        if mode == 'server':
            srv = Server(c)
            try:
                # NB: the server receives the text as the editor plug-in sends it
                out[mode] = srv.post(c['tex2'], c['language'])
            except Exception as e:
                out[mode] = shellrun.ShellResult(2, b'', 'server: %r' % e, [])
            finally:
                srv.close()
        else:
            out[mode] = shellrun.run_shell({'t.tex': c['tex']},
                                           shell_args(c, mode) + ['t.tex'],
                                           answers=c['answers'])
    return out


def process(cases, modes_of, res, stream):
    jobs = [(c, modes_of(c)) for c in cases]
    results = shellrun.pmap(lambda j: run_case(j[0], j[1]), jobs)
    lines = []
    index = []
    for (c, modes), rr in zip(jobs, results):
        for mode in modes:
            lines.append(shellcase.model_line(mode, False, c['tex2'], c['parts'],
                                              c['answers']))
            index.append((c, mode, rr[mode]))
    outs = core.run_model(lines, shards=4)
    for (c, mode, r), o in zip(index, outs):
        mo = shellcase.parse_model_report(o)
        case = {'tex': c['tex'], 'mode': mode, 'multi': c['multi'],
                'language': c['language'], 'mlc': c['mlc'],
                'answers': [a.decode('utf-8') for a in c['answers']]}
        nt = len(c['expected']) > 0
        res.count(stream, (c['tex'], mode, c['multi'], c['language']), nontrivial=nt)
        res.dist('mode=%s' % mode)
        res.dist('matches=%d' % min(len(c['expected']), 6))
        res.dist('parts=%d' % min(len(c['parts']), 5))
        if nt and mode == 'plain':
            res.sample({'tex': c['tex'][:300], 'mode': mode,
                        'expected': [(e[1], e[0]) for e in c['expected']]})
        fail, dis = eval_mode(c, mode, r, mo, res)
        bad = check_lt_calls(c, r, mode)
        if bad and not fail:
            fail = '; '.join(bad[:3])
        key = 'c14:%s:%r' % (mode, c['tex'])
        if fail:
            res.failures.append((key, case, fail))
        if dis:
            res.disagreements.append((stream, case, dis, o[:300]))


def run(tier, seed, build, res):
    rng = random.Random(seed)
    res.rule = ('random documents from the construct grammar (gens/docs.py: '
                'marker words in text, arguments, footnotes, captions, items, '
                'verbatim, user macros, non-ASCII, language switches) x 0-6 '
                'proofreader matches on marker words per submitted part x '
                'output modes plain/json/xml/xml-b/html/server x single / '
                'multi-language; non-trivial = at least one match')
    n = 40 if tier == 'quick' else 600
    cases = [make_case(rng, i) for i in range(n)]
    cases += [repeated_case(rng, 10 ** 5 + i) for i in range(3 if tier == 'quick' else 20)]
    cc = core.load_corpus('C14')
    for x in cc:
        cases.append(case_from_json(x))
    nserver = 4 if tier == 'quick' else 40

    def modes_of(c):
        ms = list(shellcase.MODES)
        if c['idx'] < nserver and not c['multi']:
            ms.append('server')
        return ms
    process(cases, modes_of, res, 'docs')
    own_checks_stream(rng, res, 6 if tier == 'quick' else 80)
    server_language_stream(res)
    server_crlf_stream(res)
    overlap_stream(res)
    crossline_stream(res)
    server_options_stream(res)


def own_checks_stream(rng, res, n):
    """messages of the shell's own checks (--single-letters) go through the
    same offset shift per part, mapping and ordering as proofreader matches:
    each isolated letter of the document is reported at its own place in the
    LaTeX file, in all formats, single- and multi-language"""
    import shellrun
    letters = 'qcjz'
    for i in range(n):
        multi = i % 3 != 0
        tex = '\\usepackage[german,english]{babel}\n'
        want = []
        for k in range(rng.randint(2, 4)):
            lang = rng.choice(['german', 'english'])
            tex += '\\selectlanguage{%s}\n' % lang
            for j in range(rng.randint(1, 2)):
                tex += rng.choice(['Wort und Satz ', 'More words here ', 'Abc def '])
                if rng.random() < 0.7:
                    ch = rng.choice(letters)
                    want.append((len(tex), ch))
                    tex += ch + ' '
                tex += rng.choice(['ende.\n', 'xyz end.\n\n', 'fin.\n'])
        for mode in ('json', 'plain', 'xml'):
            args = ['--output', mode, '--language', 'en-GB', '--single-letters', 'A|I']
            if multi:
                args.append('--multi-language')
            r = shellrun.run_shell({'t.tex': tex}, args + ['t.tex'])
            case = {'tex': tex, 'multi': multi, 'mode': mode, 'own_checks': True}
            key = 'c14-own:%s:%r:%r' % (mode, multi, tex)
            res.count('own-checks', (mode, multi, tex), nontrivial=len(want) > 0)
            if r.rc != 0 or r.traceback:
                res.failures.append((key, case, 'shell failed: rc %d %s' % (r.rc, r.err[-200:])))
                continue
            out = r.out.decode('utf-8')
            exp = [shellcase.linecol(tex, o) for o, _ in want]
            if mode == 'json':
                got = [(fy + 1, fx + 1) for _, _, fy, fx, _, _ in shellcase.parse_json(out)]
                offs = [o for o, _, _, _, _, _ in shellcase.parse_json(out)]
                if offs != [o for o, _ in want]:
                    res.failures.append((key, case, 'isolated letters stand at offsets %r of '
                                         'the LaTeX file, reported offsets: %r'
                                         % ([o for o, _ in want], offs)))
                    continue
            elif mode == 'plain':
                got = shellcase.parse_plain(out)
            else:
                got = [(a + 1, b + 1) for a, b, _, _ in shellcase.parse_xml(out)]
            if got != exp:
                res.failures.append((key, case, 'isolated letters stand at (line, column) '
                                     '%r, reported in order: %r' % (exp, got)))


def server_language_stream(res):
    """server emulation: the language of the request, not the one the server
    was started with, is the main language of the text -- parts and language
    codes of the submissions follow from it"""
    tex = ('Dies ist ein deutscher Satz mit einigen Worten. \\foreignlanguage{english}{This is '
           'a longer English insertion with many words.} Und wieder deutscher Text am Ende.\n'
           '\\foreignlanguage{english}{Short one} dazu.\n')
    for srv_lang, req_lang, multi in (('en-GB', 'de-DE', True), ('en-GB', 'de-DE', False),
                                      ('de-DE', 'en-GB', True), ('de-DE', 'de-DE', True)):
        tex2, parts = shellcase.shell_parts(tex, req_lang, multi, 2)
        c = {'tex': tex, 'tex2': tex2, 'parts': parts, 'multi': multi, 'language': srv_lang,
             'mlc': 2, 'answers': [b'{"matches": []}'] * max(1, len(parts))}
        key = 'c14-srvlang:%s:%s:%r' % (srv_lang, req_lang, multi)
        case = {'tex': tex, 'server_language': srv_lang, 'request_language': req_lang,
                'multi': multi}
        res.count('server-language', (srv_lang, req_lang, multi), nontrivial=True)
        srv = Server(c)
        try:
            r = srv.post(tex2, req_lang)
        except Exception as e:
            res.failures.append((key, case, 'server: %r' % e))
            continue
        finally:
            srv.close()
        bad = check_lt_calls(c, r, 'server')
        if bad:
            res.failures.append((key, case, 'request in %s to a server started with %s: %s; '
                                 'submissions %r' % (req_lang, srv_lang, '; '.join(bad),
                                 [(x['argv'][x['argv'].index('--language') + 1]
                                   if '--language' in x['argv'] else None, x['text'][:30])
                                  for x in r.calls])))


def server_options_stream(res):
    """server emulation: the rule options configured with --lt-options are
    passed with every submission; a request that carries its own rule fields
    overrides them for that request only"""
    tex = 'Ein Satz mit Fehlerr hier.\n'
    tex2, parts = shellcase.shell_parts(tex, 'de-DE', False, 2)
    c = {'tex': tex, 'tex2': tex2, 'parts': parts, 'multi': False, 'language': 'de-DE', 'mlc': 2,
         'answers': [b'{"matches": []}'],
         'extra_args': ['--lt-options', '~--disable RULE_A --enablecategories CAT_B']}
    res.count('server-options', ('server-options',), nontrivial=True)
    srv = Server(c)
    argvs = []
    try:
        seq = [None, {'disabledRules': 'RULE_X'}, None, {'enabledCategories': 'CAT_Y', 'disabledRules': 'RULE_Z'},
               None]
        for extra in seq:
            n0 = len(argvs)
            r = srv.post(tex2, 'de-DE', extra)
            argvs.append([x['argv'] for x in r.calls][sum(len(a) for a in argvs[:0]):])
    except Exception as e:
        res.failures.append(('c14-srvopts', {'tex': tex}, 'server: %r' % e))
        return
    finally:
        srv.close()
    # the log is cumulative: the last call of each post is the new one
    last = [a[-1] if a else None for a in argvs]
    case = {'tex': tex, 'lt_options': c['extra_args'][1], 'requests': [x or {} for x in seq]}

    def opt(argv, name):
        return [argv[i + 1] for i, x in enumerate(argv[:-1]) if x == name]
    if any(a is None for a in last):
        res.failures.append(('c14-srvopts', case, 'no submission for a request: %r' % last))
        return
    if 'RULE_A' not in opt(last[0], '--disable') or 'CAT_B' not in opt(last[0], '--enablecategories'):
        res.failures.append(('c14-srvopts', case, 'the configured rule options are not passed with the '
                             'first submission: %r' % last[0]))
    for k in (2, 4):
        if last[k] != last[0]:
            res.failures.append(('c14-srvopts', case, 'request %d (no rule fields) is submitted with %r, '
                                 'the first request of the same kind with %r' % (k, last[k], last[0])))
            break
    if 'RULE_X' not in opt(last[1], '--disable'):
        res.failures.append(('c14-srvopts', case, 'the rule field of request 1 is not passed: %r' % last[1]))


def server_crlf_stream(res):
    """server emulation: the client counts offsets in the text it sent --
    also when that text has CRLF line ends or no final line break"""
    for tex in ('Erste Zeile hier.\r\nZweite Zeile mit Fehlerr.\r\nDritte Zeile mit Worrt am Ende.\r\n',
                'Erste Zeile hier.\nZweite Zeile mit Fehlerr.\nDritte mit Worrt',
                'Erste\r\n\r\nZweite \\textbf{Fehlerr} und\r\nWorrt.'):
        tex2, parts = shellcase.shell_parts(tex, 'de-DE', False, 2)
        plain = parts[0][1]
        ms = []
        want = []
        for w in ('Fehlerr', 'Worrt'):
            o = plain.find(w)
            if o >= 0:
                ms.append(shellcase.lt_match(plain, o, len(w), rule='R' + w))
                want.append((tex.find(w), len(w)))
        c = {'tex': tex, 'tex2': tex2, 'parts': parts, 'multi': False, 'language': 'de-DE',
             'mlc': 2, 'answers': [json.dumps({'matches': ms}).encode('utf-8')]}
        key = 'c14-crlf:%r' % tex
        case = {'tex': tex, 'server': True}
        res.count('server-crlf', tex, nontrivial=True)
        srv = Server(c)
        try:
            r = srv.post(tex, 'de-DE')
            got = [(m['offset'], m['length']) for m in json.loads(r.out)['matches']]
        except Exception as e:
            res.failures.append((key, case, 'server: %r' % e))
            continue
        finally:
            srv.close()
        if got != want:
            res.failures.append((key, case, 'the server answers %r for the words at %r of the '
                                 'text it was sent' % (got, want)))


def overlap_stream(res):
    """HTML report: a message that overlaps the previous one is listed in the
    table of overlapping messages under the line of its flagged word, for
    every context size"""
    lines = ['Zeile %d mit etwas Text hier.' % i for i in range(1, 10)]
    lines[5] = 'Hier steht a secondd problem im Satz.'
    lines[7] = 'Und noch ein Worrt dazu.'
    tex = '\n'.join(lines) + '\n'
    tex2, parts = shellcase.shell_parts(tex, 'en-GB', False, 2)
    plain = parts[0][1]
    o1 = plain.find('a secondd problem'); o2 = plain.find('secondd'); o3 = plain.find('Worrt')
    ms = [shellcase.lt_match(plain, o1, len('a secondd problem'), rule='PHRASE'),
          shellcase.lt_match(plain, o2, len('secondd'), rule='WORD'),
          shellcase.lt_match(plain, o3, 5, rule='W3'),
          shellcase.lt_match(plain, o3, 3, rule='W4')]
    ans = json.dumps({'matches': ms}).encode('utf-8')
    for ctx in ('0', '1', '2', '5', '-1'):
        r = shellrun.run_shell({'t.tex': tex}, ['--language', 'en-GB', '--output', 'html',
                                                '--context', ctx, 't.tex'], answers=[ans])
        res.count('overlap', ('overlap', ctx), nontrivial=True)
        key = 'c14-overlap:%s' % ctx
        case = {'tex': tex, 'context': ctx, 'mode': 'html'}
        if r.rc != 0 or r.traceback:
            res.failures.append((key, case, 'shell failed: rc %d %s' % (r.rc, r.err[-200:])))
            continue
        out = r.out.decode('utf-8')
        k = out.find('overlapping message(s)</H3>')
        if k < 0:
            res.failures.append((key, case, 'no table of overlapping messages in the report'))
            continue
        got = [int(n) for n in re.findall(r'<tr><td style="[^"]*" align="right" valign="top">'
                                          r'(\d+)&nbsp;&nbsp;</td><td>', out[k:])]
        want = [6, 8]
        if got != want:
            res.failures.append((key, case, 'overlapping messages are listed under lines %r, '
                                 'the flagged words stand in lines %r' % (got, want)))


def crossline_stream(res):
    """a match that crosses line breaks of the LaTeX file (repeated word at a
    line end, a phrase over two or three lines): JSON and XML give line and
    column of its first character and of the character behind its last one;
    offset and length select the flagged text"""
    tex = ('Erste Zeile hier und the\nthe zweite Zeile mit a phrase\n  that goes on\nfor three lines. '
           'Ende\nund Schluss hier.\n')
    tex2, parts = shellcase.shell_parts(tex, 'en-GB', False, 2)
    plain, cm = parts[0][1], parts[0][2]
    spans = ['the\nthe', 'a phrase\n  that goes on\nfor three', 'Ende\nund', 'hier.\n']
    ms = []
    for sp in spans:
        k = plain.find(sp)
        if k < 0:
            res.failures.append(('c14-crossline', {'tex': tex}, 'plain text does not hold %r' % sp))
            return
        ms.append(shellcase.lt_match(plain, k, len(sp), rule='R%d' % len(ms)))
    ans = json.dumps({'matches': ms}).encode('utf-8')
    want = []
    for sp in spans:
        b = tex2.find(sp); e = b + len(sp) - 1       # last flagged character
        fy, fx = tex2.count('\n', 0, b), b - (tex2.rfind('\n', 0, b) + 1)
        ty, tx = tex2.count('\n', 0, e), e - (tex2.rfind('\n', 0, e) + 1) + 1
        want.append((b, len(sp), fy, fx, ty, tx))
    for mode in ('json', 'xml', 'xml-b'):
        r = shellrun.run_shell({'t.tex': tex}, ['--language', 'en-GB', '--output', mode, 't.tex'],
                               answers=[ans])
        res.count('crossline', ('crossline', mode), nontrivial=True)
        key = 'c14-crossline:%s' % mode
        case = {'tex': tex, 'mode': mode, 'spans': spans}
        if r.rc != 0 or r.traceback:
            res.failures.append((key, case, 'shell failed: rc %d %s' % (r.rc, r.err[-200:])))
            continue
        out = r.out.decode('utf-8')
        got = shellcase.parse_json(out) if mode == 'json' else shellcase.parse_xml(out)
        exp = want if mode == 'json' else [w[2:] for w in want]
        if [tuple(g) for g in got] != [tuple(x) for x in exp]:
            res.failures.append((key, case, 'matches over line breaks are reported at %r, the flagged '
                                 'texts stand at %r (offset, length, first line/column, line/column '
                                 'behind the last character)' % (got, exp)))


def case_from_json(x):
    tex2, parts = shellcase.shell_parts(x['tex'], x['language'], x['multi'],
                                        x['mlc'])
    return {'tex': x['tex'], 'tex2': tex2, 'parts': parts,
            'answers': [a.encode('utf-8') for a in x['answers']],
            'expected': x.get('expected', []), 'multi': x['multi'],
            'language': x['language'], 'mlc': x['mlc'], 'idx': 10 ** 6,
            'no_oracle': 'expected' not in x}


def replay(payload, build, res):
    x = payload.get('case')
    if not x or 'tex' not in x:
        return False
    c = case_from_json(x)
    # recompute the expectation from the answers: marker words flagged
    exp = []
    k = 0
    for lang, plain, cm in c['parts']:
        if not plain.strip():
            continue
        a = json.loads(c['answers'][min(k, len(c['answers']) - 1)])
        k += 1
        for m in a.get('matches', []):
            w = plain[m['offset']:m['offset'] + m['length']]
            o = c['tex2'].find(w)
            if o >= 0 and c['tex2'].count(w) == 1:
                exp.append((o, w, m['rule']['id']))
    exp.sort(key=lambda e: e[0])
    c['expected'] = exp
    process([c], lambda c: [x['mode']], res, 'replay')
    return not res.disagreements
