"""C17 -- results do not depend on what was processed before.

History correspondence: sequences of (document, options) calls in one
interpreter, each call compared with the same call made alone in a fresh
process and with the model (a function, hence history-free); sequences of
requests to one --as-server process compared with a fresh server per request.
Obligation: the generated inventory of module-level state is classified."""
import json, os, random, subprocess, sys
import core, parsecase, universe, shellrun
from props import c14

PROP_FILE = 'props/C17.v'

GLS = universe.FILES['main.glsdefs']

POOL = [
    ({'latex': '\\newtheorem{lemma}{Lemma}\\begin{lemma}[Zorn] A \\end{lemma}\n'}, 'declares a theorem'),
    ({'latex': '\\documentclass{article}\\usepackage{geometry}\\begin{lemma}[Zorn] B \\end{lemma}\n'},
     'uses the theorem undeclared'),
    ({'latex': '\\newcommand{\\pa}{defined A} X \\pa{} Y'}, 'defs'),
    ({'latex': 'X \\pa{} Y \\pb{} Z'}, 'uses undefined'),
    ({'latex': '\\usepackage{glossaries}\\LTinput{main.glsdefs}\nA \\gls{pp} \\Gls{ex} B',
      'files': {'main.glsdefs': GLS}}, 'glossary'),
    ({'latex': '\\usepackage{glossaries}X \\gls{pp} \\glspl{ex} Y'}, 'glossary use only'),
    ({'latex': 'A $x$ B $y$ C $z$ D \\[ a = b \\] E'}, 'maths'),
    ({'latex': 'A $x$ B'}, 'one formula'),
    ({'latex': '\\begin{enumerate}\\item a \\item b\\begin{enumerate}\\item c\\end{enumerate}'}, 'open items'),
    ({'latex': '\\begin{enumerate}\\item a \\item b \\end{enumerate} \\item stray'}, 'items'),
    ({'latex': '\\usepackage[german]{babel}\\selectlanguage{german}Ein "a $x$ \\begin{proof}B\\end{proof}', 'multi': True, 'lang': 'en-GB'}, 'language'),
    ({'latex': 'An "a $x$ \\begin{proof}B\\end{proof}', 'multi': True, 'lang': 'en-GB'}, 'language default'),
    ({'latex': 'A \\unknownx B \\begin{unknowny}C\\end{unknowny}', 'unkn': True}, 'unknowns'),
    ({'latex': 'A \\footnote{f} \\section{S} B', 'extr': 'footnote,section'}, 'extraction'),
    ({'latex': 'A \\footnote{f} \\section{S} B'}, 'no extraction'),
    ({'latex': '\\[ a \\] $\\text{x}$ \\eqref{e} \\begin{align}b\\end{align}', 'dcls': 'article', 'pack': 'amsmath'}, 'article+amsmath'),
    ({'latex': '\\[ a \\] $\\text{x}$ \\eqref{e} \\begin{align}b\\end{align}', 'dcls': 'article', 'pack': ''}, 'article only'),
    ({'latex': '\\[ a \\] $\\text{x}$ \\eqref{e}', 'dcls': 'article', 'pack': 'babel'}, 'article+babel'),
    ({'latex': '\\usepackage{amsmath}\\renewcommand{\\label}[1]{L} \\label{x} $\\text{t}$'}, 'redefinition'),
    ({'latex': 'x \\label{y} $\\text{t}$ \\LTadd{a}\\LTskip{b}', 'nosp': True}, 'nosp'),
    ({'latex': 'x \\label{y} $\\text{t}$ \\LTadd{a}\\LTskip{b}'}, 'plain'),
    ({'latex': 'so dass und so dass', 'repl': ['so dass & sodass']}, 'repl 1'),
    ({'latex': 'so dass und so dass', 'repl': ['so dass & SODASS', '# so dass & x']}, 'repl 2'),
    ({'latex': '\\usepackage{babel}A B C \\foreignlanguage{german}{x} D \\foreignlanguage{german}{y} E', 'multi': True, 'lang': 'en-GB', 'thresh': 3}, 'change placeholders'),
    ({'latex': '\\newtheorem{thx}{Satz}\\begin{thx}T\\end{thx}'}, 'theorem'),
    ({'latex': '\\begin{thx}T\\end{thx} \\begin{thm}U\\end{thm}'}, 'theorem use'),
    ({'latex': '\\def\\dx#1{[#1]}\\dx{q} \\usepackage{xspace}A\\xspace B'}, 'def + package'),
    ({'latex': '\\dx{q} A\\xspace B', 'pack': ''}, 'no packages'),
    ({'latex': 'A $$ b $$ C', 'seqs': True}, 'simple equations'),
    ({'latex': 'a', 'defs': '\\newcommand{\\dd}{DD}\\usepackage{babel}\\selectlanguage{russian}'}, 'defs option'),
    ({'latex': 'a \\dd{} $x$', 'lang': 'de'}, 'after defs'),
    ({'latex': '\\usepackage{babel}A \\foreignlanguage{UKenglish}{x y} B \\selectlanguage{klingon} C '
               '\\begin{otherlanguage}{austrian}D\\end{otherlanguage}', 'multi': True,
      'lang': 'en-GB'}, 'unknown language names'),
    ({'latex': '\\documentclass[ngerman,UKenglish]{article}\\usepackage{babel}\nText hier.',
      'multi': True, 'lang': 'en-GB'}, 'class options with an unknown language'),
    ({'latex': '\\documentclass[klingon,austrian]{scrartcl}\\usepackage[UKenglish]{babel}\nText.',
      'multi': True, 'lang': 'de-DE'}, 'package option with an unknown language'),
    ({'latex': '\\usepackage{xcolor}\\textcolor{red}{important} \\colorbox{blue}{b}', 'dcls': 'article',
      'pack': 'xcolor'}, 'article+xcolor'),
    ({'latex': '\\textcolor{red}{important} \\colorbox{blue}{b}', 'dcls': 'article', 'pack': '',
      'unkn': True}, 'article, xcolor macros unknown'),
    ({'latex': '\\usepackage[poorman]{cleveref}\\YYCleverefInput{one.sed}\nA \\cref{sec:a} B \\Cref{eq:b} C '
               '\\crefrange{sec:a}{eq:b} D',
      'files': {'one.sed': 's/\\\\cref{sec:a}/section~1/g\ns/\\\\Cref{eq:b}/Equation~(2)/g\n'
                           's/\\\\crefrange{sec:a}{eq:b}/sections~1 to~2/g\n'}}, 'cleveref, first sed file'),
    ({'latex': '\\usepackage[poorman]{cleveref}\\YYCleverefInput{two.sed}\nA \\cref{sec:a} B \\Cref{eq:b} C '
               '\\crefrange{sec:a}{eq:b} D \\cref{sec:z} E',
      'files': {'two.sed': 's/\\\\cref{sec:z}/section~9/g\n'}}, 'cleveref, second sed file'),
]
# documents the model does not cover (package cleveref): history check only
NOMODEL = ('cleveref',)
# histories every run includes: (labels of the calls)
DIRECTED = [('cleveref, first sed file', 'cleveref, second sed file'),
            ('cleveref, second sed file', 'cleveref, first sed file', 'cleveref, second sed file')]


def mk(j):
    d = {'lang': 'en', 'pack': '*', 'dcls': '', 'defs': '', 'extr': '', 'seqs': False,
         'nosp': False, 'multi': False, 'files': {}, 'repl': None, 'unkn': False,
         'thresh': 3}
    d.update(j)
    return d


def run_history(hist):
    p = subprocess.run([core.PY, os.path.join(core.VERIF, 'harness', 'hist_worker.py')],
                       input=json.dumps(hist).encode(), stdout=subprocess.PIPE,
                       stderr=subprocess.PIPE, env=core.repo_env(), timeout=600)
    if p.returncode != 0:
        return None, p.stderr.decode('utf-8', 'replace')[-300:]
    d = json.loads(p.stdout.decode())
    CHANGED.update(d.get('globals_changed', []))
    return d['results'], ''


# module-level objects of yalafi.* that a history modified (hist_worker.py)
CHANGED = set()


def norm(r):
    return json.loads(json.dumps(r))


def run(tier, seed, build, res):
    rng = random.Random(seed)
    # documents of /repo's own tests join the pool: they use most features
    import seeds
    sd = seeds.load()
    extra = []
    for k in range(12 if tier == 'quick' else 60):
        s_ = rng.choice(sd)
        extra.append(({'latex': s_, 'multi': k % 3 == 0, 'lang': rng.choice(['en-GB', 'de-DE'])},
                      'test snippet %d' % k))
    POOL.extend(extra)
    pool = [mk(j) for j, _ in POOL]
    res.rule = ('histories over a pool of %d (document, options) calls that set '
                'definitions, glossary entries, packages, classes, languages, '
                'placeholder rotation, item counters, extraction lists, '
                'replacement lists: all ordered pairs (thorough) / sampled '
                'pairs, random histories of length <= 6 with repetitions; each '
                'call compared with the call alone in a fresh process and with '
                'the model; request sequences to one --as-server process; '
                'non-trivial = a history of at least two calls' % len(pool))
    # reference: each call alone, fresh process
    fresh = shellrun.pmap(lambda j: run_history([j]), pool)
    ref = []
    for (r, e), j in zip(fresh, pool):
        if r is None:
            res.failures.append(('c17-fresh:%r' % j['latex'], j, 'worker failed: ' + e))
            ref.append(None)
        else:
            ref.append(norm(r[0]))
    # the model: a function of the call
    universe.scratch_dir()
    mpool = [(j, r) for j, r in zip(pool, ref) if not any(w in j['latex'] for w in NOMODEL)]
    outs = core.run_model([parsecase.model_line_t2t(parsecase.T2T.from_json(j))
                           for j, _ in mpool], shards=8)
    for (j, r), o in zip(mpool, outs):
        mo = parsecase.parse_model_t2t(o)
        res.count('model', json.dumps(j, sort_keys=True))
        if r is not None and (mo[0] != r[0] or (r[0] == 'OK' and norm(mo[1]) != r[1])):
            res.disagreements.append(('model', j, repr(r)[:300], repr(mo[:2])[:300]))
    hists = []
    idx = list(range(len(pool)))
    pairs = [(a, b) for a in idx for b in idx]
    if tier == 'quick':
        pairs = rng.sample(pairs, 120)
    for a, b in pairs:
        hists.append([a, b])
    labels = [l for _, l in POOL]
    for d in DIRECTED:
        hists.append([labels.index(l) for l in d])
    for _ in range(40 if tier == 'quick' else 1500):
        hists.append([rng.choice(idx) for _ in range(rng.randint(3, 6))])
    # pack several histories into one worker call?  No: each history needs
    # its own interpreter.
    results = shellrun.pmap(lambda h: run_history([pool[i] for i in h]), hists)
    for h, (r, e) in zip(hists, results):
        res.count('histories', tuple(h), nontrivial=len(h) > 1)
        res.dist('length=%d' % len(h))
        if r is None:
            res.failures.append(('c17-hist:%r' % (h,), {'history': h}, 'worker failed: ' + e))
            continue
        for k, i in enumerate(h):
            if ref[i] is not None and norm(r[k]) != ref[i]:
                case = {'history': [pool[x] for x in h[:k + 1]], 'call': k}
                res.failures.append((
                    'c17:%s after %s' % (POOL[i][1], [POOL[x][1] for x in h[:k]]), case,
                    'call %d (%s) after %r returns %r, alone in a fresh process %r'
                    % (k, POOL[i][1], [POOL[x][1] for x in h[:k]],
                       str(r[k])[:200], str(ref[i])[:200])))
                break
    if len(res.samples) < 3:
        res.sample({'history': [POOL[i][1] for i in hists[-1]]})
    # processing a document must not write to module-level state: whatever
    # is written there is visible to the next document
    for name in sorted(CHANGED):
        res.failures.append(('c17-global:' + name, {'global': name},
                             'processing documents modified the module-level object '
                             '%s (it outlives the call)' % name))
    res.extra['module_level_objects_modified'] = sorted(CHANGED)
    shell_files(res)
    from props import c06
    c06.customisation_stream(res, 'C17')
    server_histories(rng, res, 4 if tier == 'quick' else 30)


def shell_files(res):
    """several files on one command line of the shell: what is submitted to
    the proofreader for a file is what is submitted when the file is given
    alone (replacement file, definition file, multi-language mode)"""
    files = {'a.tex': 'Eins so dass zwei \\xa{} drei.\n',
             'b.tex': '\\usepackage{babel}Vier so dass five \\xa{} six seven eight.\n'
                      '\\begin{otherlanguage}{german}\nEin langer deutscher Satz so dass es reicht.\n'
                      '\\end{otherlanguage}\nNine so dass ten eleven twelve.\n',
             'c.tex': 'Zehn so dass elf $x$ und $y$.\n',
             'e.tex': 'Eins so dass zwei \\xa{} drei.\n',
             'r.txt': 'so dass & sodass\n', 'd.tex': '\\newcommand{\\xa}{MAKRO}\n'}
    for opts in (['--replace', 'r.txt'], ['--replace', 'r.txt', '--define', 'd.tex'],
                 ['--replace', 'r.txt', '--multi-language'], ['--define', 'd.tex']):
        names = ['a.tex', 'b.tex', 'c.tex', 'e.tex']
        both = shellrun.run_shell(files, ['--language', 'en-GB'] + opts + names)
        alone = [shellrun.run_shell(files, ['--language', 'en-GB'] + opts + [n]) for n in names]
        res.count('shell-files', tuple(opts), nontrivial=True)
        got = [c['text'] for c in both.calls]
        want = [c['text'] for r in alone for c in r.calls]
        if both.rc != 0 or got != want:
            res.failures.append(('c17-files:%r' % (opts,), {'options': opts, 'files': names},
                                 'files %r in one run are submitted as %r, one run per file '
                                 'submits %r' % (names, got, want)))


def server_histories(rng, res, n):
    """requests to one --as-server process vs a fresh server per request"""
    texts = ['\\newcommand{\\sa}{macro text}A \\sa{} Fehlerr B\n',
             'C \\sa{} D Fehlerr\n', 'E $x$ F $y$ Fehlerr\n',
             '\\begin{enumerate}\\item a Fehlerr\n', '\\item b Fehlerr $z$\n',
             'G "a "o "s Fehlerr \\begin{proof}P\\end{proof} $q$ H\n']
    base = {'language': 'en-GB', 'multi': False, 'mlc': 2, 'tex': ''}

    class S(c14.Server):
        pass

    def answer(tex):
        tex2, parts = __import__('shellcase').shell_parts(tex, 'en-GB', False, 2)
        plain = parts[0][1]
        import shellcase
        o = plain.find('Fehlerr')
        ms = [shellcase.lt_match(plain, o, 7)] if o >= 0 else []
        return json.dumps({'matches': ms}).encode()

    def request(srv, tex, extra=None):
        srv.set_answers([answer(tex)])
        import urllib.parse, urllib.request
        d = {'text': tex, 'language': 'en-GB'}
        d.update(extra or {})
        data = urllib.parse.urlencode(d).encode('ascii')
        req = urllib.request.Request('http://localhost:%d/v2/check' % srv.port, data=data)
        with urllib.request.urlopen(req, timeout=60) as f:
            out = json.loads(f.read())
        calls = [json.loads(l) for l in open(srv.log, encoding='utf-8')] \
            if os.path.exists(srv.log) else []
        return ([(m['offset'], m['length']) for m in out['matches']],
                [c['argv'] for c in calls], [c['text'] for c in calls])

    class C(dict):
        pass
    for _ in range(n):
        seq = [(rng.choice(texts), rng.choice([None, None, {'disabledRules': 'RULE_A'},
                                               {'language': 'de-DE'}, {'language': 'ru-RU'}]))
               for _ in range(rng.randint(2, 4))]
        if _ == 0:
            # the language of a request holds for that request only
            seq = [(texts[-1], {'language': 'de-DE'}), (texts[-1], None), (texts[-1], {'language': 'ru-RU'}),
                   (texts[-1], None)]
        cfg = dict(base)
        cfg['answers'] = [b'{"matches": []}']
        cfg['extra_args'] = ['--lt-options', '~--disable FOO --enablecategories CAT']
        srv = c14.Server(cfg)
        # the server is started with --lt-options to exercise option merging
        try:
            got = [request(srv, t, e) for t, e in seq]
        except Exception as e:
            got = 'server failed: %r' % e
        finally:
            srv.close()
        want = []
        for t, e in seq:
            s2 = c14.Server(cfg)
            try:
                want.append(request(s2, t, e))
            except Exception as ex:
                want.append('server failed: %r' % ex)
            finally:
                s2.close()
        res.count('server', tuple(seq and [t for t, _ in seq]), nontrivial=True)
        if got != want:
            res.failures.append(('c17-server:%r' % (seq,), {'requests': [t for t, _ in seq]},
                                 'answers of one server process %r differ from fresh '
                                 'servers %r' % (got, want)))


def replay(payload, build, res):
    j = payload.get('case') or {}
    if 'history' not in j or not isinstance(j['history'][0], dict):
        return False
    r, e = run_history(j['history'])
    alone, e2 = run_history([j['history'][-1]])
    if r is None or alone is None or norm(r[-1]) != norm(alone[0]):
        res.failures.append(('replay', j, 'last call in the history %r, alone %r'
                             % (r and str(r[-1])[:200], alone and str(alone[0])[:200])))
    return True
