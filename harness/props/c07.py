"""C07 -- the filter is total: arbitrary input never crashes or hangs it.

Correspondence: outcome class of tex2txt() vs the model (Ok / fatal exit /
exception / out of fuel); oracle: no unhandled exception, no hang (time
limit per case), fatal exit only for the documented reasons."""
import random
import core, parsecase, universe

PROP_FILE = 'props/C07.v'


def project(r):
    return (r[0] if r[0] != 'FUEL' else 'HANG',)


def oracle(c, d, kind, im):
    if im[0] == 'EXC':
        return 'unhandled exception: %s' % im[1]
    if im[0] == 'HANG':
        if im[1].startswith(parsecase.OUTSIDE):
            return None     # self-calling / multiplying definitions of the document
        return 'no result: %s' % im[1]
    if im[0] == 'FATAL':
        # documented: module loading problems, default equation environment
        if 'error loading module' in im[1] or 'is not an EquEnv' in im[1] \
                or "no environment for" in im[1] or 'could not open' in im[1]:
            return None
        return 'fatal exit: %s' % im[1][-150:]
    return None


DIRECTED = [
    '\\newcommand{\\a}[99999999999999999999]{x}', '\\newglossaryentry{ex}{description}',
    '\\usepackage[a=}{]{babel}', '#²', 'm#³ #① #٣', '\\newcommand{\\a}[²]{x}\\a',
    '\\end{otherlanguage}', 'A \\end{otherlanguage*} B \\end{otherlanguage}',
    '\\item', '\\item[', '$', '$$', '\\[', '\\begin{equation}', '\\end{equation}',
    '\\begin{itemize}\\end{enumerate}\\end{itemize}\\end{itemize}\\item x',
    '\\verb', '\\verb|', '\\begin{verbatim}', '\\', '\\\\[', '{', '}', '#', '#0', '#9',
    '\\section', '\\section[', '\\section*', '\\footnote', '\\cite[', '\\newcommand',
    '\\newcommand{\\x}', '\\newcommand{\\x}[1][', '\\def', '\\def\\x', '\\def\\x#1',
    '\\def\\x#2{a}', '\\def\\x#1{#2}\\x', '\\newcommand{\\x}[1]{#2}',
    '\\newtheorem', '\\newtheorem{a}', '\\begin{a}[', '\\hspace', '\\hspace*',
    '\\phantom', '\\LTinput', '\\LTinput{nofile}', '\\usepackage', '\\usepackage[',
    '\\documentclass[a={]{article}', '\\gls', '\\gls{', '\\Gls{x}',
    '\\gls@defglossaryentry{a}{b=}', '\\gls@defglossaryentry{a}{text}\\gls{a}',
    '\\foreignlanguage', '\\foreignlanguage{german}', '\\selectlanguage',
    '\\begin{otherlanguage}', '\\begin{proof}[', "\\'", "\\'{", "\\'1", '\\"{}',
    '\\footcite[a][b]', '\\substack', '\\substack{a\\\\', '\\xspace',
    '\\begin{tabular}', '\\begin{thebibliography}', '\\bibitem', '\\caption[',
    '$\\text', '$\\text{', '$\\mbox{a$', '\\[\\begin{x}\\]', '\\[ a \\\\[', '$$ a & b',
    '\\renewcommand{\\LTinput}[1]{x}\\LTinput{a}', '\\def\\item{x}\\item',
]


def endings():
    """documents cut directly behind a control sequence, its star, an opening
    bracket or brace: every macro and environment the parser knows with all
    packages, plus names it does not know"""
    from yalafi import parameters, parser, tex2txt
    parms = parameters.Parameters('en')
    p = parser.Parser(parms, tex2txt.get_packages('*', parms.package_modules))
    macs = sorted(p.the_macros) + ['\\verb', '\\begin', '\\end', '\\item', '\\unknownmac',
                                   "\\'", '\\"', '\\def', '\\\\']
    tails = ['', '*', '[', '{', '*[', '*{', '[a]', '[a]{', '{a}', '{a}{', '*|', '|', ' ',
             '\n', '%', '{}[', '$', '*$']
    out = []
    for m in macs:
        for t in tails:
            out.append('A ' + m + t)
    for e in sorted(p.the_environments) + ['unknownenv', 'verbatim']:
        for t in ['', '[', '{', '[a]', '{a}', '*', '\n', '[a]{']:
            out.append('A \\begin{' + e + '}' + t)
        out.append('A \\begin{' + e + '} x \\end{' + e)
        out.append('A \\end{' + e + '}')
    return out


def def_forms():
    """\\def with delimited parameter texts and bodies that refer to parameters
    inside and outside the declared range, each followed by a use"""
    params = ['', '#1', '[#1]', '(#1,#2)', '#1#2', '#1.#2', 'a#1b', '#2', '#1#3', '##',
              '#', '[#1]#2', '#1[#2]', '#9', '[]']
    bodies = ['#1', '#2', '#3', '#4', '#9', '#0', '##', 'x#1y#2', '', '#1#2#4', '{#2}']
    uses = [' \\x', '\\x[a]', '\\x(a,b)', '\\x ab', '\\x{a}{b}', '']
    return ['\\def\\x%s{%s}%s' % (p, b, u) for p in params for b in bodies for u in uses]


MODNAMES = ['.', '..', '..x', '.x', 'a..b', '', ' ', '1', 'class', 'None', 'é', 'a-b', 'a.b',
            '**', ',', ',,', 'a,', '.,.', 'os', 'sys', '__init__', 'x/y', '~', 'amsmath.',
            '.amsmath', 'amsmath,.', '..article', 'article.', 'import', 'a b']


def module_names():
    """package and class names that are no Python module names, in the
    document and as option values"""
    out = []
    for n in MODNAMES:
        for t in ('\\usepackage{%s} A', '\\documentclass{%s} A', '\\usepackage[x]{%s} A',
                  '\\usepackage{amsmath,%s} A'):
            out.append((t % n, {}))
        out.append(('\\usepackage%s A' % n[:1], {}))
        out.append(('A', {'pack': n}))
        out.append(('A', {'dcls': n}))
        out.append(('A', {'pack': 'amsmath,' + n}))
    return out


def run(tier, seed, build, res):
    rng = random.Random(seed)
    res.rule = ('malformed stream: every prefix / deletion / insertion kind of '
                'the document grammar, token soup over %d vocabulary entries, '
                '%d directed truncated constructs, x options; 20 s time limit '
                'per case; non-trivial = any case (all count)'
                % (len(universe.SOUP), len(DIRECTED)))
    n = 1000 if tier == 'quick' else 40000
    cases = list(universe.gen_cases(rng, n, kinds=('prefix', 'delete', 'insert',
                                                   'soup', 'soup')))
    for latex in DIRECTED:
        for multi in (False, True):
            cases.append((parsecase.T2T(latex, files=dict(universe.FILES),
                                        multi=multi, lang='en-GB'), None, 'directed'))
    if tier != 'quick':
        # outside the claim (self-calling definitions): must not raise an alarm
        for latex in ('\\newcommand\\footnote\\footnote-- \\footnote x',
                      '\\newcommand{\\x}{\\textbf{\\x}}\\x',
                      '\\def\\x{a\\x}\\x'):
            cases.append((parsecase.T2T(latex, files=dict(universe.FILES), lang='en-GB'),
                          None, 'outside'))
    ends = endings()
    if tier == 'quick':
        # always: the control sequences the scanner itself treats specially
        core_ = [e for e in ends if any(e.startswith('A ' + m) for m in (
            '\\verb', '\\begin', '\\end', '\\item', "\\'", '\\"', '\\def', '\\\\', '\\unknownmac'))
            and '\\begin{' not in e and '\\end{' not in e]
        rest = [e for e in ends if e not in set(core_)]
        ends = core_ + rng.sample(rest, 500)
    for latex in ends:
        cases.append((parsecase.T2T(latex, files=dict(universe.FILES), lang='en-GB',
                                    multi=rng.random() < 0.3), None, 'ending'))
    defs_ = def_forms()
    if tier == 'quick':
        defs_ = rng.sample(defs_, 250)
    for latex in defs_:
        cases.append((parsecase.T2T(latex, files=dict(universe.FILES), lang='en-GB'),
                      None, 'def-form'))
    for latex, o in module_names():
        cases.append((parsecase.T2T(latex, files=dict(universe.FILES), lang='en-GB', **o),
                      None, 'module-name'))
    for j in core.load_corpus('C07'):
        cases.append((parsecase.T2T.from_json(j), None, 'corpus'))
    for i in range(0, len(cases), 2000):
        universe.run(cases[i:i + 2000], res, 'malformed', project, oracle)


def replay(payload, build, res):
    j = payload.get('case') or {}
    if 'latex' not in j:
        return False
    universe.run([(parsecase.T2T.from_json(j), None, 'replay')], res, 'replay',
                 project, oracle)
    return not res.disagreements
