"""C16 -- HTML report: faithful source, each match once, content cannot break
the markup.

Correspondence: yalafi.shell.genhtml.generate_html (in-process, and through
`python -m yalafi.shell --output html` for a sample) vs the model
coq/model/Html.v, byte-exact.  Oracle: parsing the produced HTML with
html.parser -- line cells reproduce the covered source lines with their
numbers, every match is highlighted exactly once (in place or in the overlap
list) with the source span it maps to, hostile characters never become
markup."""
import html as _html
import html.parser, json, random, re, sys
import core, shellrun, shellcase
from yalafi import tex2txt
from yalafi.shell import genhtml

PROP_FILE = 'props/C16.v'


class Fatal(Exception):
    pass


def json_get(dic, item, typ):
    if not isinstance(dic, dict):
        raise Fatal(item)
    ret = dic.get(item)
    if not isinstance(ret, typ):
        raise Fatal(item)
    return ret


def shell_constants():
    sys.path.insert(0, core.VERIF + '/harness')
    import gen_more
    return gen_more.shell_constants()


def init_genhtml(context, link=False):
    sc = shell_constants()
    v = tex2txt.Aux()
    v.json_get = json_get
    v.cmdline = tex2txt.Aux()
    v.cmdline.context = context if context >= 0 else int(1e8)
    v.cmdline.link = link
    v.cmdline.server = ''
    v.highlight_style = sc['highlight_style']
    v.number_style = sc['number_style']
    v.msg_LT_server_html = ''
    genhtml.init(v)
    # tex2txt.fatal exits: turn into an exception for in-process use
    genhtml.tex2txt.fatal = lambda *a, **k: (_ for _ in ()).throw(Fatal(a))


HOSTILE = ['<b>x</b>', 'a & b', '"q"', "it's", 'x<y>z', '&amp;', '&lt;', '&#60;',
           '<br>', 'tab\there', 'a\nb', '<script>alert(1)</script>', '  sp  ',
           '>>>', '<<<', 'é ü Ж 中', '']


def make_case(rng):
    nlines = rng.choice([1, 2, 3, 6, 12])
    lines = []
    for _ in range(nlines):
        k = rng.random()
        if k < 0.15:
            lines.append('')
        elif k < 0.25:
            lines.append('x' * rng.randint(100, 300))
        else:
            ws = []
            for _ in range(rng.randint(1, 8)):
                ws.append(rng.choice(['wort', 'Text', 'a', '\\macro', '$x$',
                                      '\\\\', '{', '}', '%', 'pa\x0cge',
                                      'u v', 'c\rr', 'n\x85l', 'v\x0bt']
                                     + HOSTILE[:9]))
            lines.append(rng.choice(['', '  ', '\t']) + ' '.join(ws))
    tex = '\n'.join(lines) + '\n'
    n = len(tex)
    # identity-like position map of a "plain" text with delimiter
    cm = list(range(1, n + 1)) + [n, n]
    if rng.random() < 0.3:
        # non-monotone map (macro arguments re-ordered)
        a = rng.randrange(n); b = rng.randrange(a, n)
        cm[a:b] = cm[a:b][::-1]
    ms = []
    for _ in range(rng.choice([0, 1, 1, 2, 3, 5])):
        o = rng.randrange(0, n)
        l = rng.choice([0, 1, 1, 3, 8, 40, 200])
        if rng.random() < 0.2 and ms:
            o = ms[-1]['offset'] + rng.choice([0, 1, ms[-1]['length']])
            o = min(max(o, 0), n - 1)
        l = min(l, n + 1 - o)
        if rng.random() < 0.05:
            o = rng.choice([-1, n + 2, n + 1])      # outside: fatal
        ctx = rng.choice(['plain context', rng.choice(HOSTILE) + ' ctx '
                          + rng.choice(HOSTILE)])
        co = rng.randint(0, max(0, len(ctx) - 1))
        rule = {'id': rng.choice(['RULE', 'R<1>', 'R&"']), 'category': {'name': 'C'}}
        if rng.random() < 0.3:
            rule['subId'] = rng.choice(['2', '<3>'])
        ms.append({'offset': o, 'length': l,
                   'message': 'Msg ' + rng.choice(HOSTILE),
                   'replacements': [{'value': rng.choice(HOSTILE)}
                                    for _ in range(rng.randint(0, 3))],
                   'context': {'text': ctx, 'offset': co,
                               'length': rng.randint(0, 5)},
                   'rule': rule})
    ms.sort(key=lambda m: abs(cm[m['offset']]) if 0 <= m['offset'] < len(cm) else 0)
    context = rng.choice([-1, 0, 1, 2, 2, 5])
    return {'tex': tex, 'cm': cm, 'matches': ms, 'context': context,
            'file': rng.choice(['t.tex', 'dir/my file.tex'])}


def impl(c):
    init_genhtml(c['context'])
    try:
        r = genhtml.generate_html(c['tex'], c['cm'], json.loads(json.dumps(c['matches'])),
                                  c['file'])
        return ('OK', r[2])
    except Fatal:
        return ('FATAL',)
    except Exception as e:
        return ('EXC', type(e).__name__)


def model_line(c):
    ctx = c['context'] if c['context'] >= 0 else 10 ** 8
    def enc_m(m):
        rule = m['rule']['id'] + ('[' + m['rule']['subId'] + ']'
                                  if 'subId' in m['rule'] else '')
        return '%d %d %s %s %d %d %s %s 0 0' % (
            m['offset'], m['length'], core.enc_str(m['message']),
            core.enc_str(m['context']['text']), m['context']['offset'],
            m['context']['length'], core.enc_str(rule),
            core.enc_list([r['value'] for r in m['replacements']], core.enc_str))
    return 'html %d %s %s %s %s' % (ctx, core.enc_str(c['tex']),
                                    core.enc_ints(c['cm']),
                                    core.enc_list(c['matches'], enc_m),
                                    core.enc_str(c['file']))


def parse_model(o):
    r = core.Reader(o)
    tag = r.word()
    if tag == 'OK':
        return ('OK', r.str())
    if tag == 'EXC':
        return ('EXC', r.word())
    return (tag,)


# ---------------- oracle ----------------

ALLOWED_TAGS = {'a', 'h3', 'table', 'tr', 'td', 'span', 'br'}


class P(html.parser.HTMLParser):
    def __init__(self):
        super().__init__(convert_charrefs=True)
        self.tags = []
        self.bad = []
        self.rows = []          # [number text, cell text, [highlight texts]]
        self.td = 0
        self.in_row = False
        self.spans = []         # stack of [title, text]
        self.done_spans = []
        self.where = 'main'

    def handle_starttag(self, tag, attrs):
        if tag not in ALLOWED_TAGS:
            self.bad.append('unexpected tag <%s>' % tag)
        if tag == 'tr':
            self.in_row = True
            self.td = 0
            self.rows.append(['', '', []])
        elif tag == 'td':
            self.td += 1
        elif tag == 'span':
            self.spans.append([dict(attrs).get('title', ''), ''])
        elif tag == 'br':
            if self.in_row and self.td == 2:
                self.rows[-1][1] += '\n'
            for s in self.spans:
                s[1] += '\n'

    def handle_endtag(self, tag):
        if tag == 'tr':
            self.in_row = False
        elif tag == 'span' and self.spans:
            s = self.spans.pop()
            self.done_spans.append((s[0], s[1], len(self.rows) - 1))
            if self.in_row:
                self.rows[-1][2].append(s[1])

    def handle_data(self, data):
        if self.in_row and self.td == 1:
            self.rows[-1][0] += data
        elif self.in_row and self.td == 2:
            self.rows[-1][1] += data
        for s in self.spans:
            s[1] += data


def unensp(s):
    return s.replace(' ', ' ')


def oracle(c, out):
    tex = c['tex']
    lines = tex.split('\n')[:-1] if tex.endswith('\n') else tex.split('\n')
    p = P()
    p.feed(out)
    bad = list(p.bad)
    # split main table and overlap table: rows of the main table have a
    # number cell followed by a line cell (add_line_numbers), the overlap
    # rows come after the marker
    main_html = out
    ov_html = ''
    k = out.find('overlapping message(s)</H3>')
    if k >= 0:
        main_html, ov_html = out[:k], out[k:]
    pm = P(); pm.feed(main_html)
    po = P(); po.feed(ov_html)
    # (1) line cells
    tab = '        '
    for num, cell, hl in pm.rows:
        num = num.replace('\xa0', '').strip()
        if not num:
            if unensp(cell).strip('\n') != '':
                bad.append('separator row with content %r' % cell[:40])
            continue
        n = int(num)
        if not (1 <= n <= len(lines)):
            bad.append('line number %d outside the file' % n)
            continue
        want = lines[n - 1].replace('\t', tab)
        if unensp(cell).rstrip('\n') != want:
            bad.append('cell of line %d is %r, source line %r'
                       % (n, unensp(cell)[:60], want[:60]))
    if c['context'] < 0:
        nums = [int(r[0].replace('\xa0', '').strip()) for r in pm.rows
                if r[0].replace('\xa0', '').strip()]
        if sorted(set(nums)) != list(range(1, len(lines) + 1)) and lines:
            bad.append('negative context: lines shown %r, file has %d'
                       % (nums[:20], len(lines)))
    # (2) each match once, with the span it maps to
    spans = pm.done_spans + po.done_spans
    cm = c['cm']
    by_title = {}
    for title, text, row in spans:
        by_title.setdefault(title, []).append(text)
    want_hl = []
    for m in c['matches']:
        beg = m['offset']; end = beg + max(1, m['length'])
        hb = abs(cm[beg]) - 1
        he = abs(cm[max(beg, end - 1)])
        if he <= hb:
            he = hb + 1
        if he == hb + 1 and tex[hb] == '\\':
            mm = re.match(r'\\[A-Za-z]+', tex[hb:])
            if mm:
                he = hb + len(mm.group(0))
        w = tex[hb:he].replace('\t', tab)
        # a line break at the very end of the span lies outside the tags
        want_hl.append(w[:-1] if w.endswith('\n') else w)
    got_hl = []
    # a highlight that spans several lines consists of one span per line with
    # the same title; join them with line breaks
    seen = []
    for title, text, row in spans:
        if seen and seen[-1][0] == title and seen[-1][2]:
            seen[-1][1] += '\n' + text
        else:
            seen.append([title, text, True])
    got_hl = [unensp(t) for _, t, _ in seen]
    if sorted(got_hl) != sorted(want_hl):
        # titles may coincide for identical matches; compare as multisets of
        # concatenated text
        if ''.join(sorted(''.join(got_hl))) != ''.join(sorted(''.join(want_hl))) \
                or len(spans) < len(want_hl):
            bad.append('highlighted %r, matches map to %r' % (got_hl[:6], want_hl[:6]))
    return bad


def check_cases(cases, res, stream):
    outs = core.run_model([model_line(c) for c in cases], shards=8)
    for c, o in zip(cases, outs):
        im = impl(c)
        mo = parse_model(o)
        nt = im[0] == 'OK' and len(c['matches']) > 0
        res.count(stream, (c['tex'], json.dumps(c['matches']), c['context']),
                  nontrivial=nt)
        res.dist('matches=%d' % len(c['matches']))
        res.dist('context=%d' % c['context'])
        res.dist('outcome=%s' % im[0])
        case = {'tex': c['tex'], 'cm': c['cm'], 'matches': c['matches'],
                'context': c['context'], 'file': c['file']}
        key = 'c16:%r' % ((c['tex'], json.dumps(c['matches']), c['context']),)
        if nt:
            res.sample({'tex': c['tex'][:120], 'matches': len(c['matches']),
                        'context': c['context']})
        if im != mo:
            d = ''
            if im[0] == 'OK' and mo[0] == 'OK':
                k = next((i for i in range(min(len(im[1]), len(mo[1])))
                          if im[1][i] != mo[1][i]), min(len(im[1]), len(mo[1])))
                d = 'first difference at %d: impl %r model %r' % (
                    k, im[1][max(0, k - 30):k + 30], mo[1][max(0, k - 30):k + 30])
            res.disagreements.append((stream, case, d or repr(im)[:200],
                                      repr(mo)[:200]))
        if im[0] == 'EXC':
            res.failures.append((key, case, 'exception %s' % im[1]))
        elif im[0] == 'OK':
            bad = oracle(c, im[1])
            if bad:
                res.failures.append((key, case, '; '.join(bad[:3])))


URLS = ['https://example.org/r', 'https://x/<br>\ny', 'u"><script>alert(1)</script>',
        "u' onclick='x", 'a&b=c&amp;d', 'x<br>\n<br>\n<br>\n<br>\ny', '', '</a></span></td>', 'u\tv w']


class A(html.parser.HTMLParser):
    def __init__(self):
        super().__init__(convert_charrefs=True)
        self.hrefs = []

    def handle_starttag(self, tag, attrs):
        if tag == 'a':
            self.hrefs.append(dict(attrs))


def link_stream(rng, res, n):
    """--link: the URL of the rule becomes the value of an href attribute;
    whatever it holds, the report keeps its rows, shows the source faithfully,
    and the link carries exactly the URL"""
    for _ in range(n):
        c = make_case(rng)
        if not c['matches']:
            continue
        for m in c['matches']:
            m['rule']['urls'] = [{'value': rng.choice(URLS)}]
        init_genhtml(c['context'], link=True)
        case = {'tex': c['tex'], 'cm': c['cm'], 'matches': c['matches'],
                'context': c['context'], 'file': c['file'], 'link': True}
        key = 'c16-link:%r' % ((c['tex'], json.dumps(c['matches']), c['context']),)
        try:
            out = genhtml.generate_html(c['tex'], c['cm'],
                                        json.loads(json.dumps(c['matches'])), c['file'])[2]
        except Fatal:
            res.count('link', key, nontrivial=False)
            continue
        except Exception as e:
            res.count('link', key, nontrivial=True)
            res.failures.append((key, case, 'exception %s with --link' % type(e).__name__))
            continue
        res.count('link', key, nontrivial=True)
        bad = oracle(c, out)
        a = A(); a.feed(out)
        urls = set(m['rule']['urls'][0]['value'] for m in c['matches'])
        for at in a.hrefs:
            if 'target' not in at and not any(k.startswith('on') for k in at):
                continue        # anchors of the report itself
            if set(at) - {'href', 'target'} or at.get('href') not in urls:
                bad.append('link tag with attributes %r, the rule URLs are %r' % (at, sorted(urls)))
        if bad:
            res.failures.append((key, case, '; '.join(bad[:3])))


def shell_sample(rng, res, n):
    """whole pipeline: real shell, --output html, hostile source"""
    def one(i):
        tex = ('Line one with <b>bold</b> & "quotes" Fehlerr.\n'
               'Second\tline\n\nLast <i>x</i> Worrt end.\n')
        tex2, parts = shellcase.shell_parts(tex, 'en-GB', False, 2)
        plain = parts[0][1]
        ms = [shellcase.lt_match(plain, plain.find(w), len(w),
                                 msg='Bad <%s> & "' % w, repls=('<b>', 'a&b'))
              for w in ('Fehlerr', 'Worrt')]
        ctx = [-1, 0, 1, 2][i % 4]
        r = shellrun.run_shell({'t.tex': tex}, ['--output', 'html', '--context',
                                                str(ctx), 't.tex'],
                               answers=[json.dumps({'matches': ms}).encode()])
        return tex2, parts, ms, ctx, r
    for tex2, parts, ms, ctx, r in shellrun.pmap(one, range(n)):
        res.count('shell', ('shell', ctx))
        if r.rc != 0 or r.traceback:
            res.failures.append(('c16-shell:%d' % ctx, {'context': ctx},
                                 'shell failed: ' + r.err[-200:]))
            continue
        out = r.out.decode('utf-8')
        body = out[out.find('<body>') + 7:out.rfind('</body>')]
        c = {'tex': tex2, 'cm': parts[0][2] + [parts[0][2][-1]] * 2,
             'matches': ms, 'context': ctx, 'file': 't.tex'}
        bad = oracle(c, body)
        if bad:
            res.failures.append(('c16-shell:%d' % ctx, {'context': ctx},
                                 '; '.join(bad[:3])))


def shell_edge_stream(res):
    """whole pipeline, edges of the plain text and of the file list: a match
    that ends with the last character of the plain text (file ending in a
    comment sign, with and without final line break), and several files of
    which some have no match, for every context size -- every file part
    must satisfy the oracle, a negative context shows every line of every
    file"""
    A = 'First line of A.\nHere is an errr in A.\nLast line of A.\n'
    B = 'First line of B with <b> & "quotes".\n\nThird line.\nLast line.\n'
    sets = [({'t.tex': 'This line is fine.\nHere is an errr%\n'}, ['t.tex']),
            ({'t.tex': 'This line is fine.\nHere is an errr%'}, ['t.tex']),
            ({'t.tex': 'This line is fine.\nHere is an errr'}, ['t.tex']),
            ({'a.tex': A, 'b.tex': B}, ['a.tex', 'b.tex']),
            ({'a.tex': A, 'b.tex': B}, ['b.tex', 'a.tex']),
            ({'b.tex': B}, ['b.tex'])]
    jobs = [(fs, names, ctx) for fs, names in sets for ctx in (-1, 0, 1, 2)]
    def one(job):
        fs, names, ctx = job
        info = []; answers = []
        for nm in names:
            tex2, parts = shellcase.shell_parts(fs[nm], 'en-GB', False, 2)
            plain = parts[0][1]
            k = plain.find('errr')
            ms = [shellcase.lt_match(plain, k, 4)] if k >= 0 else []
            answers.append(json.dumps({'matches': ms}).encode())
            info.append((nm, tex2, parts, ms))
        r = shellrun.run_shell(fs, ['--output', 'html', '--context', str(ctx)] + names,
                               answers=answers)
        return job, info, r
    for (fs, names, ctx), info, r in shellrun.pmap(one, jobs):
        res.count('shell-edge', ('edge', tuple(names), tuple(sorted(fs.items())), ctx),
                  nontrivial=True)
        key = 'c16-edge:%d' % ctx
        case = {'files': fs, 'names': names, 'context': ctx}
        if r.rc != 0 or r.traceback:
            res.failures.append((key, case, 'shell failed: rc %d %s' % (r.rc, r.err[-200:])))
            continue
        out = r.out.decode('utf-8')
        body = out[out.find('<body>') + 7:out.rfind('</body>')]
        secs = body.split('<hr><hr>\n')
        if len(names) > 1:
            secs = secs[1:]
        if len(secs) != len(names):
            res.failures.append((key, case, '%d file parts in the report, %d files'
                                 % (len(secs), len(names))))
            continue
        for (nm, tex2, parts, ms), sec in zip(info, secs):
            c = {'tex': tex2, 'cm': parts[0][2] + [parts[0][2][-1]] * 2 if parts[0][2] else [1, 1],
                 'matches': ms, 'context': ctx, 'file': nm}
            bad = oracle(c, sec)
            if not ms and ctx >= 0:
                bad = [b for b in bad if not b.startswith('negative')]
            if bad:
                res.failures.append((key, case, nm + ': ' + '; '.join(bad[:3])))
                break


def shell_multi_stream(res):
    """whole pipeline in multi-language mode: the same foreign passage several
    times, a match in every copy and in the text around them -- every match
    highlighted once, at its own place"""
    ger = '\\foreignlanguage{german}{Ein Fehlerr steht hier in diesem ganzen langen Satz.}'
    tex = ('English text with a Worrt here. ' + ger + '\nMore English words follow now and a secondd one. '
           + ger + '\nThe end of it. ' + ger + '\n')
    for ctx in (-1, 0, 2):
        tex2, parts = shellcase.shell_parts(tex, 'en-GB', True, 2)
        plain_tot = ''
        cm_tot = []
        ms_tot = []
        answers = []
        for lang, plain, cm in parts:
            ms = []
            for w in ('Fehlerr', 'Worrt', 'secondd'):
                k = plain.find(w)
                while k >= 0:
                    ms.append(shellcase.lt_match(plain, k, len(w), rule='R_' + w))
                    k = plain.find(w, k + 1)
            if plain.strip():       # blank parts are not submitted
                answers.append(json.dumps({'matches': ms}).encode())
            for m in ms:
                m2 = json.loads(json.dumps(m))
                m2['offset'] += len(plain_tot)
                ms_tot.append(m2)
            plain_tot += plain + '\n\n'
            cm_tot += cm + [cm[-1]] * 2
        r = shellrun.run_shell({'t.tex': tex}, ['--language', 'en-GB', '--multi-language', '--ml-continue-threshold', '2',
                                                '--output', 'html', '--context', str(ctx), 't.tex'], answers=answers)
        res.count('shell-multi', ('multi', ctx), nontrivial=True)
        key = 'c16-multi:%d' % ctx
        case = {'tex': tex, 'context': ctx, 'multi': True}
        if r.rc != 0 or r.traceback:
            res.failures.append((key, case, 'shell failed: rc %d %s' % (r.rc, r.err[-200:])))
            continue
        if len(r.calls) != len(answers):
            res.failures.append((key, case, '%d submissions, %d non-blank text parts' % (len(r.calls), len(answers))))
            continue
        out = r.out.decode('utf-8')
        body = out[out.find('<body>') + 7:out.rfind('</body>')]
        c = {'tex': tex2, 'cm': cm_tot, 'matches': ms_tot, 'context': ctx, 'file': 't.tex'}
        bad = oracle(c, body)
        if bad:
            res.failures.append((key, case, '; '.join(bad[:3])))


def run(tier, seed, build, res):
    rng = random.Random(seed)
    res.rule = ('random source files (empty / very long lines, tabs, HTML '
                'special characters, LaTeX markup) x 0-5 matches (adjacent, '
                'overlapping, multi-line, zero length, out of range) with '
                'hostile messages, suggestions, contexts and rule ids x '
                'context sizes -1,0,1,2,5; position maps identity-like or '
                'partly reversed; non-trivial = a report with at least one '
                'match')
    n = 1500 if tier == 'quick' else 30000
    cases = [make_case(rng) for _ in range(n)]
    cases += core.load_corpus('C16')
    for i in range(0, len(cases), 5000):
        check_cases(cases[i:i + 5000], res, 'random')
    link_stream(rng, res, 200 if tier == 'quick' else 3000)
    shell_sample(rng, res, 4 if tier == 'quick' else 16)
    shell_edge_stream(res)
    shell_multi_stream(res)


def replay(payload, build, res):
    c = payload.get('case') or {}
    if 'cm' not in c:
        return False
    check_cases([c], res, 'replay')
    return not res.disagreements
