"""C04 -- generated text maps into the source span of the construct that
generated it.

Every entry of the live catalogue (built-in, package and class macros and
environments, user macros, glossary and cleveref entries, maths, items) is
used 1-3 times between marker words; every output character that does not
belong to a marker word has to map into the span of the construct occurrence
that produced it.  Correspondence with the model (cleveref: oracle only)."""
import random, re
import core, parsecase, universe
from yalafi import parameters, parser, tex2txt, defs

PROP_FILE = 'props/C04.v'

SED = ('s/\\\\cref{sa}/Section            1/g\n'
       's/\\\\Cref{sa}/Section~1/g\n'
       's/\\\\cref{eq}/\\\\cref@equation@name \\\\nobreakspace \\\\textup {(\\\\ref {eq})}/g\n'
       's/\\\\cref@equation@name /eq\\./g\n'
       's/\\\\crefrange{sa}{sb}/Sections 1 to~2/g\n')


def catalogue():
    parms = parameters.Parameters('en')
    p = parser.Parser(parms, tex2txt.get_packages('*', parms.package_modules))
    macs = [(n, m.args) for n, m in sorted(p.the_macros.items())]
    envs = [(n, e.args, type(e) is defs.EquEnv) for n, e in sorted(p.the_environments.items())]
    return macs, envs


SKIP = {'\\newcommand', '\\renewcommand', '\\newtheorem', '\\usepackage',
        '\\documentclass', '\\LTinput', '\\gls@defglossaryentry', '\\item',
        '\\babel@skip@space', '\\par'}


def call_of(rng, name, args):
    s = name
    for code in args:
        if code == '*':
            s += rng.choice(['', '*'])
        elif code == 'O':
            s += rng.choice(['', '[oo]', '[o p]'])
        else:
            s += '{ma}' if name not in ('\\foreignlanguage', '\\selectlanguage') \
                else '{german}'
    if re.search(r'[A-Za-z@]$', s):
        s += '{}'
    return s


def build(rng, macs, envs):
    """one document: preamble + uses; returns (tex, [(start, end)] spans in
    order, files)"""
    k = rng.random()
    pre = docs_preamble = ('\\newcommand{\\ua}{UA text}\\newcommand{\\ub}{\\verb|ub body text|}\n'
                           '\\newcommand{\\uo}[1][default words]{<#1>}\n'
                           '\\newcommand{\\up}[2][dflt]{(#1/#2)}\n\\newtheorem{thm}{Theorem}\n'
                           '\\usepackage{xspace}\\newcommand{\\ux}{i.e.\\xspace}\n')
    files = {}
    uses = []
    if k < 0.15:
        pre += '\\usepackage{glossaries}\n\\LTinput{main.glsdefs}\n'
        files = {'main.glsdefs': universe.FILES['main.glsdefs']}
        pool = ['\\gls{pp}', '\\Gls{pp}', '\\glspl{ex}', '\\GLS{ex}', '\\Glsdesc{ex}',
                '\\gls{ex}', '\\gls[o]{pp}']
    elif k < 0.3:
        pre += '\\usepackage[poorman]{cleveref}\\YYCleverefInput{c04.sed}\n'
        files = {'c04.sed': SED}
        pool = ['\\cref{sa}', '\\Cref{sa}', '\\cref{eq}', '\\crefrange{sa}{sb}', '\\cref{sa}']
    elif k < 0.45:
        pool = ['\\ua{}', '\\ub{}', '\\uo{}', '\\uo[x y]', '\\up{q}', '\\up[r]{s}',
                '\\begin{thm}[Name] t \\end{thm}', '\\begin{thm} u \\end{thm}',
                '\\ux', 'etc\\xspace', '\\ux', '\\uo', '\\up{q}']
    elif k < 0.6:
        pool = ['$x$', '$y+z$,', '\\(a\\)', '\\[ b = c. \\]', '$$ d $$',
                '\\begin{equation} e &= f \\\\ g &= h, \\end{equation}',
                '\\begin{itemize}\\item i \\item[L] j\\end{itemize}',
                '\\begin{enumerate}\\item k \\item l\\end{enumerate}',
                '\\begin{proof} m \\end{proof}', '\\begin{proof}[Of n] o \\end{proof}',
                '\\section{Head}', '\\chapter*{Head?}', '\\footnote{foot}',
                '\\caption{cap}', '\\cite{k}', '\\cite[p. 5]{k}', '\\footcite[see][p. 3]{k}',
                '\\parencite{k}', '\\ref{r}', '\\eqref{e}', '\\hspace{1cm}', '\\phantom{X}',
                "\\'e", '\\LaTeX{}', '\\TeX{}', '\\S{}', '\\ss{}', '\\textbackslash{}',
                '\\begin{verbatim}\nvv\n\\end{verbatim}', '\\verb|w|', '\\\\', '--', '~',
                # \item[label] copies the punctuation mark in front of it
                # into the label: (text in front, construct)
                ('. ', '\\item[L]'), (', ', '\\item[Lab el]'), ('.\n', '\\item[M]'),
                ('; ', '\\item[N]'), ('. ', '\\item[L]')]
    else:
        pool = None
    tex = pre
    spans = []
    nuse = rng.randint(1, 3)
    reps = rng.choice([1, 1, 2, 3])
    chosen = []
    for _ in range(nuse):
        if pool is None:
            if rng.random() < 0.8:
                n, a = rng.choice(macs)
                if n in SKIP:
                    continue
                chosen.append(call_of(rng, n, a))
            else:
                n, a, equ = rng.choice(envs)
                b = call_of(rng, '', a)[:-2] if a else ''
                chosen.append('\\begin{' + n + '}' + b + ' z \\end{' + n + '}')
        else:
            chosen.append(rng.choice(pool))
    i = 0
    for r in range(reps):
        for call in chosen:
            tex += 'Wm%dk ' % i
            if isinstance(call, tuple):
                tex += call[0]
                call = call[1]
            spans.append((len(tex), len(tex) + len(call)))
            tex += call + ' '
            i += 1
    tex += 'Wm%dk\n' % i
    return tex, spans, files


def project(r):
    if r[0] != 'OK':
        return (r[0],)
    return ('OK', [(lang, t, p) for lang, t, p in universe.texts_of(r)])


MARK = re.compile(r'Wm\d+k')


def _run_own(tier, seed, build_, res):
    rng = random.Random(seed)
    macs, envs = catalogue()
    res.rule = ('documents of 1-3 construct uses repeated 1-3 times between '
                'marker words; constructs: all %d macros and %d environments of '
                'the catalogue with package selection *, user macros with '
                'defaults and verbatim bodies, glossary entries, cleveref '
                'entries from a sed file, maths, items, theorems; non-trivial = '
                'a construct that generated at least one character'
                % (len(macs), len(envs)))
    n = 500 if tier == 'quick' else 12000
    cases = []
    meta = {}
    universe.scratch_dir()
    open('c04.sed', 'w').write(SED)
    for _ in range(n):
        tex, spans, files = build(rng, macs, envs)
        cl = 'cleveref' in tex
        c = parsecase.T2T(tex, lang='en', pack='*', files=dict(files))
        meta[tex] = spans
        cases.append((c, 'cleveref' if cl else None, 'spans'))

    def oracle(c, d, kind, im):
        if im[0] != 'OK' or c.latex not in meta:
            return None
        spans = meta[c.latex]
        txt, pos = im[1][1], im[1][2]
        src = c.latex
        # positions of marker words in the source
        marks = [(m.start(), m.end()) for m in MARK.finditer(src)]
        body0 = marks[0][0] if marks else 0
        pref = []
        for k, (a, b) in enumerate(spans):
            w = 'Wm%dk' % k
            pref.append((src.find(w) + len(w), a))
        # characters of an error mark are placed by latex_error (a mark near
        # the end of the text is split, its tail pinned to the last
        # character): C08 and C01 speak about them, not C04
        errm = set()
        em = parameters.Parameters('en').mark_latex_error
        j = txt.find(em)
        while j >= 0:
            errm.update(range(j, j + len(em)))
            j = txt.find(em, j + 1)
        for i, (ch, q) in enumerate(zip(txt, pos)):
            if i in errm:
                continue
            o = q - 1
            if ch.isspace():
                # white space copied from the source maps to white space; a
                # generated blank maps into the construct that generated it,
                # not to a character of the text next to it
                if 0 <= o < len(src) and not src[o].isspace() \
                        and any(a <= o < b for a, b in marks) \
                        and not any(a <= o < b for a, b in spans):
                    return ('white space (output index %d) maps to offset %d, a character '
                            'of the word %r next to the construct'
                            % (i, o, src[max(0, o - 2):o + 6]))
                continue
            if o < body0:
                return ('character %r maps to offset %d in the preamble' % (ch, o))
            if any(a <= o < b for a, b in marks):
                continue            # a marker word (copied text)
            if any(a <= o < b for a, b in pref) and src[o] == ch:
                continue            # text in front of a construct (copied)
            if not any(a <= o < b for a, b in spans):
                return ('character %r (output index %d) maps to offset %d, outside '
                        'every construct (%r)' % (ch, i, o, spans))
        # each occurrence: generated characters of the k-th rendering map to
        # the k-th span.  Renderings are delimited by the marker words.
        cur = 0
        for k, (a, b) in enumerate(spans):
            m0 = txt.find('Wm%dk' % k, cur)
            m1 = txt.find('Wm%dk' % (k + 1), m0 + 1) if m0 >= 0 else -1
            if m0 < 0 or m1 < 0:
                continue
            # source text between the marker and the construct is copied:
            # each of its characters at most once, at its own offset
            e0 = src.find('Wm%dk' % k) + len('Wm%dk' % k)
            copied = set()
            for i in range(m0 + len('Wm%dk' % k), m1):
                o = pos[i] - 1
                if e0 <= o < a and src[o] == txt[i] and o not in copied:
                    copied.add(o)
                    continue
                if not txt[i].isspace() and i not in errm and not (a < pos[i] <= b):
                    return ('use %d of %r: character %r maps to %d, outside its '
                            'span %d..%d' % (k, src[a:b], txt[i], pos[i], a + 1, b))
            cur = m0 + 1
        return None

    mod = [x for x in cases if x[1] is None]
    cle = [x for x in cases if x[1] is not None]
    for i in range(0, len(mod), 2000):
        universe.run([(c, None, k) for c, _, k in mod[i:i + 2000]], res, 'spans',
                     project, oracle, sample_rule=lambda c, im: True)
    # cleveref is not modelled: oracle only
    for c, _, k in cle:
        im = parsecase.run_t2t(c)
        res.count('cleveref', c.key())
        bad = oracle(c, None, k, im)
        if im[0] != 'OK':
            bad = 'no result %r' % (im[:2],)
        if bad:
            res.failures.append(('c04:%r' % (c.key(),), c.json(), bad))


def run(tier, seed, build_, res):
    _run_own(tier, seed, build_, res)
    # snippets of /repo's own tests and their mutations (harness/seeds.py)
    universe.run_seeds(random.Random(seed + 7), res, project, tier, share=0.6)


def replay(payload, build_, res):
    j = payload.get('case') or {}
    if 'latex' not in j:
        return False
    universe.run([(parsecase.T2T.from_json(j), None, 'replay')], res, 'replay',
                 project, lambda *a: None)
    return not res.disagreements
