"""C10 -- inline maths becomes one rotating placeholder with its punctuation,
nothing else.

Formula-body enumerator (exhaustive up to N tokens over elements, operators,
maths spaces, punctuation, sub/superscripts, fractions, unknown maths macros)
x languages en/de/ru x positions (text, argument, item, footnote);
the oracle is the statement of the property; correspondence with the model."""
import itertools, random, re
import core, parsecase, universe
from yalafi import parameters

PROP_FILE = 'props/C10.v'

ELEM = ['a', 'x', '1', '\\alpha', 'b_i', 'c^{2}', '\\frac{a}{b}', '\\unk{y}', '\\ldots', '\\dots',
        'n!', 'q?']
OPER = ['+', '=', '<', '\\leq', '\\to']
SPACE = ['\\,', '~', '\\;', '\\ ']
PUNCT = ['.', ',', ';', ':']
TOKS = [(e, 'E') for e in ELEM] + [(o, 'O') for o in OPER] + \
       [(s, 'S') for s in SPACE] + [(p, 'P') for p in PUNCT]


def render(body):
    s = ''
    for t, k in body:
        if s and s[-1].isalpha() and t[0].isalpha() and '\\' in s.split()[-1][-8:]:
            s += ' '
        if s and re.search(r'\\[A-Za-z]+$', s) and t[0].isalpha():
            s += ' '
        s += t
    return s


def expected(body, ph):
    """property text: blank / placeholder / punctuation / blank"""
    kinds = [k for _, k in body]
    if all(k == 'S' for k in kinds):
        return ' '
    out = ''
    if kinds[0] == 'S':
        out += ' '
    out += ph
    last = [t for t, k in body if k != 'S'][-1]
    if last in PUNCT:
        out += last
    if kinds[-1] == 'S':
        out += ' '
    return out


def placeholders(lang):
    lc = parameters.Parameters(lang).lang_context
    return list(lc.math_repl_inline), list(lc.math_repl_display)


def project(r):
    if r[0] != 'OK':
        return (r[0],)
    return ('OK', [(lang, t, p) for lang, t, p in universe.texts_of(r)])


def _run_own(tier, seed, build, res):
    rng = random.Random(seed)
    N = 2 if tier == 'quick' else 3
    res.rule = ('formula bodies: all sequences of up to %d tokens out of %d '
                '(elements, operators, maths spaces, punctuation), random longer '
                'ones; 1-8 formulas per document between words, inside '
                '\\textbf{}, \\item, \\footnote; languages en, de, ru; '
                'non-trivial = document with at least two formulas'
                % (N, len(TOKS)))
    res.extra['exhaustive_tokens'] = N
    bodies = []
    for n in range(1, N + 1):
        bodies += list(itertools.product(TOKS, repeat=n))
    for _ in range(300 if tier == 'quick' else 5000):
        bodies.append(tuple(rng.choice(TOKS) for _ in range(rng.randint(4, 8))))
    rng.shuffle(bodies)
    cases = []
    meta = {}
    i = 0
    while i < len(bodies):
        k = rng.randint(1, 8)
        group = bodies[i:i + k]
        i += k
        lang = rng.choice(['en', 'de', 'ru'])
        delim = rng.choice([('$', '$'), ('\\(', '\\)')])
        ctx = rng.choice(['text', 'text', 'arg', 'item', 'foot'])
        parts = []
        spans = []
        tex = 'Start '
        for j, b in enumerate(group):
            s = delim[0] + render(b) + delim[1]
            spans.append((len(tex), len(tex) + len(s)))
            tex += s + ' w%d ' % j
        if ctx == 'arg':
            pre = '\\textbf{'
            tex = pre + tex + '}'
            spans = [(a + len(pre), b + len(pre)) for a, b in spans]
        elif ctx == 'item':
            pre = '\\begin{itemize}\n\\item '
            tex = pre + tex + '\n\\end{itemize}'
            spans = [(a + len(pre), b + len(pre)) for a, b in spans]
        elif ctx == 'foot':
            pre = 'X\\footnote{'
            tex = pre + tex + '}'
            spans = [(a + len(pre), b + len(pre)) for a, b in spans]
        c = parsecase.T2T(tex, lang=lang, pack='*', files={})
        meta[(tex, lang)] = (group, spans, lang)
        cases.append((c, None, 'formulas'))

    def oracle(c, d, kind, im):
        if im[0] != 'OK' or (c.latex, c.lang) not in meta:
            return None
        group, spans, lang = meta[(c.latex, c.lang)]
        inl, _ = placeholders(lang)
        txt, pos = im[1][1], im[1][2]
        # the words w0, w1, ... delimit the rendering of each formula
        k0 = txt.find('Start ')
        cur = k0 + len('Start ')
        for j, b in enumerate(group):
            e = txt.find(' w%d ' % j, cur) if not txt[cur:].startswith('w%d ' % j) else cur
            m = re.search(r' ?w%d ' % j, txt[cur:])
            if not m:
                return 'word w%d lost' % j
            e = cur + m.start()
            got = txt[cur:e]
            if m.group(0).startswith(' '):
                pass
            # formulas that consist of maths space only take no placeholder
            nph = len([g for g in group[:j + 1] if not all(k == 'S' for _, k in g)])
            ph = inl[nph % len(inl)]
            want = expected(b, ph)
            if got.strip() != want.strip() or (want.startswith(' ') and not
                                               (got.startswith(' ') or txt[cur - 1] == ' ')):
                return ('formula %r rendered as %r, expected %r (placeholder '
                        'number %d of the %s collection)'
                        % (render(b), got, want, (j + 1) % len(inl), lang))
            a0, b0 = spans[j]
            for q in range(cur, e):
                if not txt[q].isspace() and not (a0 < pos[q] <= b0):
                    return ('character %r of the rendering of formula %r maps to '
                            '%d, outside the formula (%d..%d)'
                            % (txt[q], render(b), pos[q], a0 + 1, b0))
            cur = e + len(m.group(0))
        return None
    for i in range(0, len(cases), 2000):
        universe.run(cases[i:i + 2000], res, 'formulas', project, oracle,
                     sample_rule=lambda c, im: len(meta[(c.latex, c.lang) if (c.latex, c.lang) in meta else (c.latex, c.lang, c.seqs)][0]) > 1)
    multi_stream(rng, res, 40 if tier == 'quick' else 1000)


def multi_stream(rng, res, n):
    """formulas in interleaved English and German passages (multi-language
    mode): each language cycles through its own collection"""
    cases = []
    meta = {}
    for _ in range(n):
        tex = '\\usepackage[german,english]{babel}\n'
        seq = []
        for k in range(rng.randint(2, 7)):
            lang = rng.choice(['en', 'de'])
            nf = rng.randint(1, 3)
            body = ' '.join('$%s$ und oder und oder w%d_%d' % (rng.choice(['a', 'x+y', 'z']), k, q)
                            for q in range(nf))
            seq += [lang] * nf
            if lang == 'de' and rng.random() < 0.4:
                # a footnote inside the foreign passage: its formulas belong
                # to that language, and so do the formulas behind it
                fb = 'Fu\\footnote{Note $%s$ hier und da.} ' % rng.choice(['p', 'q+r'])
                seq.insert(len(seq) - nf, 'de-foot')
                tex += '\\begin{otherlanguage}{german}\n' + fb + body + ' lang lang lang.\n\\end{otherlanguage}\n\n'
            elif lang == 'de':
                tex += '\\begin{otherlanguage}{german}\n' + body + ' lang lang lang.\n\\end{otherlanguage}\n\n'
            else:
                tex += body + ' some more words here.\n\n'
        c = parsecase.T2T(tex, lang='en-GB', pack='*', multi=True, thresh=2, files={})
        meta[tex] = seq
        cases.append((c, None, 'multi'))

    def oracle(c, d, kind, im):
        if im[0] != 'OK':
            return None
        seq = meta[c.latex]
        for lang, key in (('en-GB', 'en'), ('de-DE', 'de')):
            inl, _ = placeholders(key)
            want = [inl[(i + 1) % len(inl)] for i in range(
                seq.count(key) + (seq.count('de-foot') if key == 'de' else 0))]
            txt = ' '.join(t for lg, t, p in universe.texts_of(im) if lg == lang)
            got = re.findall('|'.join(re.escape(x) for x in inl), txt)
            if (sorted(got) != sorted(want)) if 'de-foot' in seq else (got != want):
                return ('%s formulas receive %r, successive placeholders of the '
                        'collection are %r' % (lang, got, want))
        return None
    universe.run(cases, res, 'multi', project, oracle)


def option_stream(rng, res, n):
    """formulas in optional arguments (pre- and post-notes of citations,
    \\item labels, theorem titles, short headings are K3): each formula
    takes one placeholder, in source order"""
    cases = []
    meta = {}
    forms = ['$%s$', '\\cite[Lemma~$%s$]{k}', '\\parencite[see $%s$][p. 3]{k}',
             '\\footcite[][Section $%s$]{k}', '\\cite[$%s$]{k}', '\\item[$%s$] text',
             '\\textbf{$%s$}', '\\Cite[see][$%s$]{k}']
    for _ in range(n):
        lang = rng.choice(['en', 'de', 'ru'])
        k = rng.randint(2, 7)
        tex = 'Start '
        for j in range(k):
            f = rng.choice(forms)
            if f.startswith('\\item'):
                tex += '\n\\begin{itemize}\n' + f % rng.choice(['a', 'x_i', 'n+1']) + '\n\\end{itemize}\n'
            else:
                tex += f % rng.choice(['a', 'x_i', 'n+1']) + ' word%d ' % j
        c = parsecase.T2T(tex, lang=lang, pack='*', files={})
        meta[(tex, lang)] = k
        cases.append((c, None, 'options'))

    def oracle(c, d, kind, im):
        if im[0] != 'OK' or (c.latex, c.lang) not in meta:
            return None
        k = meta[(c.latex, c.lang)]
        inl, _ = placeholders(c.lang)
        want = [inl[(i + 1) % len(inl)] for i in range(k)]
        txt = ' '.join(t for lg, t, p in universe.texts_of(im))
        got = re.findall('|'.join(re.escape(x) for x in inl), txt)
        # (the text of \\footcite is detached and follows the main text)
        if sorted(got) != sorted(want) or ('footcite' not in c.latex and got != want):
            return ('%d formulas (some in optional arguments) receive %r, successive '
                    'placeholders of the collection are %r' % (k, got, want))
        return None
    universe.run(cases, res, 'options', project, oracle)


def run(tier, seed, build, res):
    _run_own(tier, seed, build, res)
    option_stream(random.Random(seed + 3), res, 60 if tier == 'quick' else 1500)
    # snippets of /repo's own tests and their mutations (harness/seeds.py)
    universe.run_seeds(random.Random(seed + 7), res, project, tier, share=0.6)
    universe.heading_finding('C10', res)


def replay(payload, build, res):
    j = payload.get('case') or {}
    if 'latex' not in j:
        return False
    universe.run([(parsecase.T2T.from_json(j), None, 'replay')], res, 'replay',
                 project, lambda *a: None)
    return not res.disagreements
