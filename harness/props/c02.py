"""C02 -- text copied from the document maps to exactly the offset where it
stands; a replaced sequence maps to its first character.

Correspondence on the parser stream (text and positions); oracle: marker
words of the generator (unique literal words) and the special sequences /
accents it placed."""
import random, re
import core, parsecase, universe

PROP_FILE = 'props/C02.v'


def project(r):
    if r[0] != 'OK':
        return (r[0],)
    return ('OK', [(lang, t, p) for lang, t, p in universe.texts_of(r)])


def oracle(c, d, kind, im):
    if im[0] != 'OK' or c.unkn:
        return None
    src = c.latex
    texts = universe.texts_of(im)
    # (1) any character that maps to an offset holding the same character is
    #     consistent; the strict claim is about the marker words:
    if d is not None and kind == 'doc' and not c.extr:
        for w, off in d.words:
            hit = None
            for lang, t, p in texts:
                k = t.find(w)
                if k >= 0:
                    hit = (p[k:k + len(w)], w, off)
                    break
                k = t.find(w[1:])
                if k >= 0 and len(w) > 3:
                    hit = (p[k:k + len(w) - 1], w[1:], off + 1)
                    break
            if hit is None:
                continue            # conservation is C03
            pos, ww, o = hit
            if pos != list(range(o + 1, o + 1 + len(ww))):
                return ('word %r stands at offset %d, its characters map to %r'
                        % (ww, o, pos))
        for off, val in d.specials:
            ok = False
            for lang, t, p in texts:
                for i, x in enumerate(p):
                    if x == off + 1 and t[i] == val:
                        ok = True
            if not ok and val.strip():
                # the replacement may have vanished with its context only if
                # no character at all maps to it; then nothing is claimed
                if any(x == off + 1 for _, t, p in texts for x in p):
                    return ('replaced sequence at offset %d (%r) does not map to '
                            'its first character' % (off, val))
    return None


DIRECTED = [
    ("\\'\\verb|abc|", {}), ("A \\'{\\verb|es|} B", {}),
    ('\\begin{verbatim}  \nabc def\n\\end{verbatim}', {}),
    ('A\\begin{verbatim}\t\nxyz\\end{verbatim}B', {}),
    ('a -- b --- c `` d \'\' e ~ f \\, g', {}),
    ('\\textbf{a \\emph{b \\unk{c}}} $x \\text{d e} y$ \\footnote{f g}', {}),
    # multi-language mode: short insertions with white space at their edges,
    # the sentence goes on behind them
    ('\\usepackage{babel}We say \\foreignlanguage{german}{Guten Morgen } xyz dqc.',
     {'multi': True, 'lang': 'en-GB'}),
    ('\\usepackage{babel}Abc  \\foreignlanguage{german}{ Wort }  xyz \\foreignlanguage{german}{ Tag}\nqkj.',
     {'multi': True, 'lang': 'en-GB'}),
    ('\\usepackage{babel}Abc\n\\begin{otherlanguage}{german}\nWort\n\\end{otherlanguage}\nxyz qkj.',
     {'multi': True, 'lang': 'en-GB', 'thresh': 5}),
    # replacement lists: longer, shorter, equal, at the start, in the middle,
    # at the end of the text; the text around the phrases keeps its place
    ('Abc so dass xyq und z.B. wvu so dass', {'repl': ['so dass & 1111 2222 33', 'z.B. & 44 55555']}),
    ('so dass jkl \\textbf{so dass} mnp\\footnote{q so dass r} t', {'repl': ['so dass & so dass dass dass']}),
    ('Abc so dass xyq und wvu', {'repl': ['so dass & 12', 'und & 66 77777 88']}),
    # German shorthands map to the first character of the sequence
    ('\\usepackage[german]{babel}A "a "O "s "` x "\' y "= z "- k "~ q "| w "" v', {'lang': 'de-DE'}),
]


def run(tier, seed, build, res):
    rng = random.Random(seed)
    res.rule = ('parser stream (documents, mutilations, soup) x options; the '
                'oracle checks every marker word of well-formed documents '
                '(source[p-1] == character for each of its characters) and '
                'every special sequence / accent the generator placed; '
                'non-trivial = document with at least one marker word found in '
                'the output')
    n = 600 if tier == 'quick' else 20000
    cases = list(universe.gen_cases(rng, n, kinds=('doc', 'doc', 'delete', 'insert')))
    for latex, o in DIRECTED:
        # directed inputs use marker-free text: checked by correspondence and
        # by the generic consistency below
        cases.append((parsecase.T2T(latex, files=dict(universe.FILES), **o), None,
                      'directed'))
    for j in core.load_corpus('C02'):
        cases.append((parsecase.T2T.from_json(j), None, 'corpus'))
    for i in range(0, len(cases), 2000):
        universe.run(cases[i:i + 2000], res, 'parser', project, oracle_all,
                     sample_rule=lambda c, im: True)
    class_coverage(cases, res)


def class_coverage(cases, res):
    """how many of the inputs lie in the document class of the end-to-end
    theorems (decision procedure doc_in_class of coq/proofs/ClassDecide.v,
    run in the extracted model): the theorems decide those, correspondence
    and oracle decide the others"""
    import seeds
    outs = core.run_model([parsecase.model_line_class(c) for c, _, _ in cases], shards=8)
    kinds = {}
    for (c, d, kind), o in zip(cases, outs):
        k = kinds.setdefault(kind, [0, 0])
        k[0] += 1
        if o.strip() == 'OK 1':
            k[1] += 1
    sd = seeds.load()
    so = core.run_model([parsecase.model_line_class(parsecase.T2T(s, lang='en', pack='*', files={}))
                         for s in sd], shards=8)
    res.extra['in_proved_class'] = {
        'by_kind': {k: {'cases': v[0], 'members': v[1]} for k, v in sorted(kinds.items())},
        'snippets_of_repo_tests': {'cases': len(sd),
                                   'members': len([o for o in so if o.strip() == 'OK 1'])}}


def oracle_all(c, d, kind, im):
    bad = oracle(c, d, kind, im)
    if bad:
        return bad
    # verbatim material of directed inputs: every letter of the source that
    # is output as the same letter must map to an offset holding that letter
    if kind in ('directed', 'corpus') and im[0] == 'OK' and not c.unkn:
        src = c.latex
        for lang, t, p in universe.texts_of(im):
            for ch, x in zip(t, p):
                if ch.isalpha() and ch.isascii() and 1 <= x <= len(src) \
                        and src[x - 1] != ch and src.count(ch) == 1:
                    return ('character %r maps to offset %d which holds %r'
                            % (ch, x - 1, src[x - 1]))
        # German shorthands: the replacement maps to the quotation mark
        if (c.lang or '').startswith('de') and '"' in src and 'babel' in src:
            short = {'a': '\xe4', 'o': '\xf6', 'u': '\xfc', 'A': '\xc4', 'O': '\xd6', 'U': '\xdc',
                     's': '\xdf', '`': '\u201e', "'": '\u201c', '=': '-'}
            for m in re.finditer(r'"(.)', src):
                val = short.get(m.group(1))
                if val is None:
                    continue
                hit = [x for _, t, p in universe.texts_of(im) for ch, x in zip(t, p) if ch == val]
                if hit and m.start() + 1 not in hit and src.count('"' + m.group(1)) == 1 \
                        and sum(t.count(val) for _, t, _ in universe.texts_of(im)) == 1:
                    return ('shorthand %r at offset %d: its replacement %r maps to %r, not to '
                            'the first character of the sequence' % (m.group(0), m.start(), val, hit))
    return None


def replay(payload, build, res):
    j = payload.get('case') or {}
    if 'latex' not in j:
        return False
    universe.run([(parsecase.T2T.from_json(j), None, 'corpus')], res, 'replay',
                 project, oracle_all)
    return not res.disagreements
