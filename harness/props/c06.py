"""C06 -- plain prose is a fixed point; special sequences follow the
documented table.

Exhaustive strings over an alphabet of letters, blanks, line breaks,
punctuation and the special sequences; the oracle is the table of the
property text applied by longest match; correspondence with the model."""
import itertools, json, os, random
import core, parsecase, universe
from yalafi import parameters, parser, utils

PROP_FILE = 'props/C06.v'

TABLE = {'---': '—', '--': '–', '``': '“', "''": '”',
         '~': '\xa0', '\\,': ' ', '\\%': '%', '\\&': '&', '\\$': '$',
         '\\#': '#', '\\_': '_', '\\{': '{', '\\}': '}', '\\\\': ' ', '&': ' '}
SYMS = ['a', 'B', ' ', '\n', '.', ',', '-', '`', "'", '~', '\\,', '\\%', '&',
        '\\\\', '\\{', '?', '!', '\\$', 'é', '*']
KEYS = sorted(TABLE, key=lambda k: -len(k))


def reference(s):
    out = ''
    pos = []
    i = 0
    blankish = set()        # offsets of replacements that are white space
    while i < len(s):
        k = next((k for k in KEYS if s.startswith(k, i)), None)
        if k:
            out += TABLE[k]
            pos.append(i + 1)
            if not TABLE[k].strip():
                blankish.add(i)
            i += len(k)
        else:
            out += s[i]
            pos.append(i + 1)
            i += 1
    return out, pos


def on_blank_line(s):
    """a special sequence stands on an otherwise blank line (case of C05)"""
    start = 0
    for line in s.split('\n'):
        i = 0
        has = False
        rest = ''
        while i < len(line):
            k = next((k for k in KEYS if line.startswith(k, i)), None)
            if k:
                has = True
                rest += TABLE[k]
                i += len(k)
            else:
                rest += line[i]
                i += 1
        if has and not rest.strip():
            return True
    return False


def customisation_stream(res, prop='C06'):
    """a call customised through modify_parms (every table of its Parameters
    object changed in place) leaves the tables of later calls as documented"""
    import subprocess
    p = subprocess.run([core.PY, os.path.join(core.VERIF, 'harness', 'custom_worker.py')],
                       stdout=subprocess.PIPE, stderr=subprocess.PIPE, env=core.repo_env(),
                       timeout=600)
    res.count('customised', ('customised',), nontrivial=True)
    try:
        d = json.loads(p.stdout.decode())
    except Exception:
        res.failures.append(('%s-custom' % prop.lower(), {'worker': 'custom_worker.py'},
                             'worker failed: ' + p.stderr.decode('utf-8', 'replace')[-300:]))
        return
    if d['before'] != d['after']:
        k = next(i for i, (a, b) in enumerate(zip(d['before'], d['after'])) if a != b)
        res.failures.append(('%s-custom' % prop.lower(), {'worker': 'custom_worker.py', 'call': k},
                             'after a call customised through modify_parms the default call %d '
                             'returns %r, before it %r' % (k, str(d['after'][k])[:160],
                                                           str(d['before'][k])[:160])))


def run(tier, seed, build, res):
    rng = random.Random(seed)
    customisation_stream(res)
    res.rule = ('all strings up to length L over %r (special sequences as '
                'single symbols), minus those with a special sequence on an '
                'otherwise blank line; plus random longer strings; non-trivial '
                '= string containing a special sequence' % (SYMS,))
    L = 3 if tier == 'quick' else 5
    res.extra['exhaustive_length'] = L
    res.extra['exhaustive'] = True
    strings = []
    for n in range(L + 1):
        for t in itertools.product(SYMS, repeat=n):
            strings.append(''.join(t))
    for _ in range(2000 if tier == 'quick' else 50000):
        strings.append(''.join(rng.choice(SYMS) for _ in range(rng.randint(5, 40))))
    strings = [s for s in strings if not on_blank_line(s)]
    # \\ followed by '[' would read an option: not in the alphabet
    parms = parameters.Parameters('en')
    p = parser.Parser(parms)
    cases = [parsecase.T2T(s, lang='en', pack='', files={}) for s in strings]
    for i in range(0, len(cases), 20000):
        chunk = cases[i:i + 20000]
        outs = core.run_model([parsecase.model_line_t2t(c, fuel=3000) for c in chunk],
                              shards=16)
        for c, o in zip(chunk, outs):
            s = c.latex
            try:
                t, ps = utils.get_txt_pos(p.parse(s))
                im = ('OK', ('S', t, [x + 1 for x in ps]))
            except Exception as e:
                im = ('EXC', type(e).__name__)
            mo = parsecase.parse_model_t2t(o)
            nt = any(k in s for k in KEYS)
            res.count('strings', s, nontrivial=nt)
            if nt and len(res.samples) < 5 and len(s) > 4:
                res.sample({'latex': s, 'out': im[1][1] if im[0] == 'OK' else im})
            if im[:2] != mo[:2]:
                res.disagreements.append(('strings', c.json(), repr(im)[:300],
                                          repr(mo)[:300]))
            if im[0] != 'OK':
                res.failures.append(('c06:%r' % s, c.json(), 'exception %s' % im[1]))
                continue
            want = reference(s)
            if (im[1][1], im[1][2]) != want:
                res.failures.append(('c06:%r' % s, c.json(),
                                     'output %r, the documented table gives %r'
                                     % ((im[1][1], im[1][2]), want)))
    # the same strings, and snippets of /repo's tests, evaluated by Coq itself
    import kernelcheck, seeds
    ks = rng.sample(cases, min(len(cases), 150 if tier == 'quick' else 1500))
    sd = [x for x in seeds.load() if len(x) <= 300]
    ks += [parsecase.T2T(x, lang=rng.choice(['en', 'de']), pack='', seqs=rng.random() < 0.2,
                         files={})
           for x in rng.sample(sd, min(len(sd), 80 if tier == 'quick' else 300))]
    kernelcheck.run(ks, res)
    options_stream(rng, res, 300 if tier == 'quick' else 6000)
    cli_stream(rng, res, 6 if tier == 'quick' else 120)
    # the table of the property text against the table of the code
    got = {k: v for k, v in parms.special_tokens.items()}
    for k, v in TABLE.items():
        res.count('table', ('table', k))
        if got.get(k) != v:
            res.failures.append(('c06-table:%r' % k, {'key': k},
                                 'special sequence %r is replaced by %r, documented %r'
                                 % (k, got.get(k), v)))
    for j in core.load_corpus('C06'):
        pass


WIDE = SYMS + list('xXyzQ019:;()') + ['\\&', '\\#', '\\_', '\\}', 'ß', 'я', '---', "''"]


def options_stream(rng, res, n):
    """the same claim under the option settings: random strings over a wider
    alphabet x (nosp, packages, language, simple equations), through
    tex2txt(); correspondence with the model"""
    cases = []
    for _ in range(n):
        s = ''.join(rng.choice(WIDE) for _ in range(rng.randint(3, 40)))
        if on_blank_line(s):
            continue
        cases.append((parsecase.T2T(s, lang=rng.choice(['en', 'de', 'ru', 'en-GB']),
                                    pack=rng.choice(['', '*', 'amsmath,babel']),
                                    nosp=rng.random() < 0.5, seqs=rng.random() < 0.3,
                                    files={}), None, 'options'))

    def project(r):
        return r[:2] if r[0] == 'OK' else (r[0],)

    def oracle(c, d, kind, im):
        if im[0] != 'OK':
            return 'no result: %r' % (im,)
        want = reference(c.latex)
        if (im[1][1], im[1][2]) != want:
            return ('output %r under options nosp=%r pack=%r lang=%r, the documented '
                    'table gives %r' % ((im[1][1], im[1][2]), c.nosp, c.pack, c.lang, want))
        return None
    universe.run(cases, res, 'options', project, oracle)


def cli_stream(rng, res, n):
    """the same claim at the command line (python -m yalafi, file and
    standard input): what is written equals the table oracle, the --nums file
    is its position map; inputs with and without a final line break"""
    import shellrun
    texts = ['x', 'Plain prose', 'Plain prose\n', 'a -- b\n', 'end with dash --', 'two\nlines', '',
             'tab\there \\% x', 'q ~']
    for _ in range(n):
        s = ''.join(rng.choice(WIDE) for _ in range(rng.randint(1, 30)))
        if not on_blank_line(s):
            texts.append(s)
    for i, t in enumerate(texts):
        if on_blank_line(t) or '\r' in t:
            continue
        via_stdin = i % 2 == 1
        if via_stdin:
            rc, out, err, files = shellrun.run_filter(['--nums', 'nums.txt'], stdin_text=t)
        else:
            rc, out, err, files = shellrun.run_filter(['--nums', 'nums.txt', 'in.tex'],
                                                      files={'in.tex': t})
        res.count('cli', ('cli', t, via_stdin), nontrivial=any(k in t for k in KEYS))
        want = reference(t)
        nums = [int(x) for x in files.get('nums.txt', '').split()]
        if rc != 0 or out != want[0] or nums != want[1]:
            res.failures.append(('c06-cli:%r:%r' % (t, via_stdin), {'latex': t, 'stdin': via_stdin},
                                 'python -m yalafi writes %r with positions %r, the documented '
                                 'table gives %r' % (out, nums[:12], want)))


def replay(payload, build, res):
    j = payload.get('case') or {}
    if 'latex' not in j:
        return False
    c = parsecase.T2T.from_json(j)
    im = parsecase.run_t2t(c)
    want = reference(c.latex)
    if im[0] != 'OK' or (im[1][1], im[1][2]) != want:
        res.failures.append(('replay', j, 'output %r, documented %r' % (im, want)))
    return True
