"""C08 -- LaTeX problems yield the full error mark at the right place, and
only then.

Fault injector: well-formed documents stay silent; a single fault (unclosed
maths, open argument of a declared macro, unterminated \\verb / verbatim,
unclosed skip comment, accent on a non-letter, unreadable \\LTinput) gives a
diagnostic with the line and column of the problem, the complete mark mapped
to that position, and keeps the text behind the construct.  Correspondence
with the model: diagnostics and positions of the mark."""
import random, re
import core, parsecase, universe
from gens import docs

PROP_FILE = 'props/C08.v'
MARK = 'LATEXXXERROR'


def project(r):
    if r[0] != 'OK':
        return (r[0],)
    marks = []
    for lang, t, p in universe.texts_of(r):
        for m in re.finditer(MARK, t):
            marks.append((lang, p[m.start()], t[max(0, m.start() - 1):m.end() + 1]))
    return ('OK', [parsecase.diag_key(d) for d in r[2]], marks)


def linecol(s, off):
    return s.count('\n', 0, off) + 1, off - (s.rfind('\n', 0, off) + 1) + 1


FAULTS = [
    # (name, text with @ at the place of the problem, text that must survive)
    ('open-inline', 'Alpha @$x + y Beta gamma.\n\nDelta epsilon.', 'Delta epsilon.'),
    ('open-inline-paren', 'Alpha @\\(x Beta.\n\nDelta.', 'Delta.'),
    ('open-inline-comment', 'Alpha @$x + y Beta gamma. % remark\n \t\nDelta epsilon.', 'Delta epsilon.'),
    ('open-display-comment', 'Alpha\n@\\[ a = b % remark\n  \nDelta epsilon.', 'Delta epsilon.'),
    ('open-display', 'Alpha\n@\\[ a = b\n\nDelta epsilon.', 'Delta epsilon.'),
    ('open-equation', 'Alpha\n@\\begin{equation} a = b\n\nDelta epsilon.', 'Delta epsilon.'),
    ('open-mandatory', 'Alpha \\textbf{ok} \\footnote@{Beta gamma', 'Beta gamma'),
    ('open-section', 'Alpha\n\\section@{Beta gamma', 'Beta gamma'),
    ('open-optional', 'Alpha \\cite@[Beta gamma', 'Beta gamma'),
    ('open-verb', 'Alpha @\\verb|xyz\nBeta gamma', 'Beta gamma'),
    ('open-verb-eof', 'Alpha beta @\\verb', 'Alpha beta'),
    ('open-verbatim', 'Alpha\n@\\begin{verbatim}\nBeta gamma', 'Beta gamma'),
    # the fault on the last line of a text that does not end with a line break
    ('open-verb-lastline', 'Alpha beta.\nGamma delta @\\verb|xyz abc', 'Gamma delta'),
    ('open-verb-lastline-blank', 'Alpha beta.\nGamma delta @\\verb|xyz abc  ', 'Gamma delta'),
    ('open-verb-lastline-nl', 'Alpha beta.\nGamma delta @\\verb|xyz abc\n', 'Gamma delta'),
    ('open-verbatim-lastline', 'Alpha beta.\nGamma delta\n@\\begin{verbatim} xyz abc', 'Gamma delta'),
    ('open-skip', 'Alpha\n@%%% LT-SKIP-BEGIN\nBeta gamma\n', 'Beta gamma'),
    ('accent-nonletter', "Alpha @\\'1 Beta gamma", 'Beta gamma'),
    ('accent-nonletter2', 'Alpha @\\"{?} Beta gamma', 'Beta gamma'),
    ('unreadable', 'Alpha @\\LTinput{nosuchfile.tex} Beta gamma', 'Beta gamma'),
    ('newcommand-args', 'Alpha \\newcommand{@\\x}[12]{y} Beta gamma', 'Beta gamma'),
]


def catalogue_faults():
    """the last mandatory argument of every catalogue macro left open at the
    end of the text"""
    macs, envs = universe.catalogue()
    out = []
    for name, (args, dcls) in macs:
        if 'A' not in args or name in universe.CAT_SKIP or name in (
                '\\begin', '\\end', '\\verb', '\\item', '\\LTinput', '\\usepackage',
                '\\documentclass'):
            continue
        call = name
        last = max(i for i, c in enumerate(args) if c == 'A')
        for i, c in enumerate(args[:last]):
            if c == 'A':
                call += '{ma}' if name not in ('\\foreignlanguage',) else '{german}'
            elif c == 'O':
                call += ''
        out.append(('open-arg:' + name, 'Alpha ' + call + '@{Beta gamma', None, dcls))
    return out


def fault_cases(rng, n):
    out = []
    for name, tmpl, keep, dcls in catalogue_faults():
        off = tmpl.index('@')
        text = tmpl[:off] + tmpl[off + 1:]
        out.append((parsecase.T2T(text, lang='en', pack='*', dcls=dcls,
                                  files=dict(universe.FILES)),
                    {'fault': name, 'offset': off, 'keep': keep, 'pre': ''}, 'fault'))
    for k in range(n):
        name, tmpl, keep = FAULTS[k % len(FAULTS)]
        pre = ''
        if rng.random() < 0.6:
            d = docs.gen_doc(rng, lang=False, blocks=rng.randint(1, 2))
            pre = d.text.rstrip('\n') + rng.choice(['\n\n', '\n \n'])
            universe.scratch_dir()
            chk = parsecase.run_t2t(parsecase.T2T(pre, lang='en', pack='*',
                                                  files=dict(universe.FILES)))
            if chk[0] != 'OK' or chk[2] or MARK in chk[1][1]:
                pre = ''        # only silent prefixes
        if rng.random() < 0.3:
            pre = pre + '\\LTinput{empty.tex}\n'
        text = pre + tmpl
        off = text.index('@', len(pre))
        text = text[:off] + text[off + 1:]
        # the options that change how maths and text are rendered
        out.append((parsecase.T2T(text, lang=rng.choice(['en', 'en', 'de', 'ru']), pack='*',
                                  seqs=rng.random() < 0.3,
                                  dcls=rng.choice(['', '', 'article', 'scrartcl']),
                                  files=dict(universe.FILES)),
                    {'fault': name, 'offset': off, 'keep': keep, 'pre': pre}, 'fault'))
    return out


def oracle(c, meta, kind, im):
    if im[0] != 'OK':
        return None
    txt = '\n'.join(t for _, t, _ in universe.texts_of(im))
    diags = im[2]
    if kind == 'doc':
        if c.nosp or c.defs or c.extr or c.unkn:
            return None
        if diags:
            return 'well-formed document, diagnostic %r' % (diags[0],)
        if MARK in txt:
            return 'well-formed document, error mark in the output'
        return None
    if kind == 'fault':
        off = meta['offset']
        want = linecol(c.latex, off)
        if not diags:
            return 'fault %s at offset %d: no diagnostic' % (meta['fault'], off)
        if (diags[-1][0], diags[-1][1]) != want and \
                not any((d[0], d[1]) == want for d in diags):
            return ('fault %s: diagnostic at line %d column %d, the problem is '
                    'at line %d column %d' % (meta['fault'], diags[-1][0],
                                              diags[-1][1], want[0], want[1]))
        full = ' ' + MARK + ' '
        if meta['fault'] == 'newcommand-args':
            full = MARK
        if full.strip() not in txt:
            return 'fault %s: the error mark is missing or incomplete: %r' % (
                meta['fault'], txt[-80:])
        if full not in txt and not txt.endswith(' ' + MARK) \
                and not txt.startswith(MARK):
            return 'fault %s: incomplete error mark in %r' % (meta['fault'], txt[-80:])
        places = []
        for lang, t, p in universe.texts_of(im):
            places += [p[m.start()] for m in re.finditer(re.escape(MARK), t)]
        # (a second problem of the same construct, e.g. an unknown glossary
        # label, has a mark of its own)
        if places and off + 1 not in places:
            return ('fault %s: first character of the mark maps to %r, the '
                    'problem is at %d' % (meta['fault'], places, off + 1))
        if meta['keep'] is not None and meta['keep'] not in txt:
            return ('fault %s: text behind the faulty construct is lost: %r not in %r'
                    % (meta['fault'], meta['keep'], txt[-120:]))
    return None


WELL = ['a \\verb|$| b', 'x \\verb|a_b|', 'end with verb \\verb|q|', '\\verb!{!',
        'A \\LTinput{empty.tex} B $x$ C', 'A\\footnote{b} \\LTinput{defs.tex} C',
        # an inner environment of a formula directly in front of its end
        '$\\begin{array}{l}a\\\\b\\end{array}$ text', '\\[\\begin{array}{l}a\\end{array}\\] text',
        '\\begin{equation}\\begin{aligned}a&=b\\end{aligned}\\end{equation} text',
        '\\(\\begin{cases}a\\\\b\\end{cases}\\) text', '$$\\begin{matrix}a&b\\end{matrix}$$ text',
        '\\begin{align}\\begin{split}a&=b\\end{split}\\end{align} text',
        '$\\begin{array}{l}\\begin{array}{l}a\\end{array}\\end{array}$ text',
        # an optional argument ends at the first ], an opening bracket inside
        # it is an ordinary character
        '\\section[The interval $[0,1)$]{Title} text', '\\begin{itemize}\\item[$[0,1)$] text\\end{itemize}',
        '\\cite[p.~5, eq.~[3a]{key} text', '\\begin{proof}[Proof of [a] x\\end{proof}',
        '\\chapter[x [y]{Z} text', '\\footnotemark[[] text', '\\caption[a [b]{c} text']


def accent_cases(rng, tier):
    """every accent macro on every ASCII letter (and a few other characters):
    the composed character -- or named sequence -- Unicode has for the pair,
    or the mark with its diagnostic when there is none; compared with the
    model (whose table is regenerated from unicodedata on every run)"""
    from yalafi import parameters
    accs = sorted(parameters.Parameters('en').accent_macros)
    letters = 'abcdefghijklmnopqrstuvwxyzABCDEFGHIJKLMNOPQRSTUVWXYZ'
    pairs = [(a, c) for a in accs for c in letters]
    if tier == 'quick':
        pairs = rng.sample(pairs, 200) + [(a, c) for a in accs for c in 'LlTq']
    out = []
    for a, c in pairs:
        form = rng.choice(['%s%s', '%s{%s}', '%s %s'] if a[-1:].isalpha() is False
                          else ['%s{%s}', '%s %s'])
        tex = 'Alpha ' + form % (a, c) + 'x Beta.\n'
        out.append((parsecase.T2T(tex, lang='en', pack='*', files={}), None, 'accent'))
    return out


def undecodable_stream(res):
    """an \\LTinput file that exists but cannot be decoded is an unreadable
    file: diagnostic, mark at the \\LTinput, the text behind it kept"""
    import contextlib, io
    from yalafi import tex2txt
    universe.scratch_dir()
    with open('c08latin1.tex', 'wb') as f:
        f.write(b'\\newcommand{\\lat}{\xe4\xf6}\n')
    tex = 'Alpha \\LTinput{c08latin1.tex} Beta gamma\n'
    for o in ({}, {'seqs': True}, {'lang': 'de'}):
        res.count('undecodable', tuple(sorted(o.items())), nontrivial=True)
        err = io.StringIO()
        try:
            with contextlib.redirect_stderr(err):
                txt = tex2txt.tex2txt(tex, tex2txt.Options(pack='*', **o))[0]
        except BaseException as e:
            res.failures.append(('c08-undecodable:%r' % (o,), {'latex': tex, 'options': o},
                                 'file that cannot be decoded: %r' % e))
            continue
        if MARK not in txt or 'LaTeX error' not in err.getvalue() or 'Beta gamma' not in txt:
            res.failures.append(('c08-undecodable:%r' % (o,), {'latex': tex, 'options': o},
                                 'file that cannot be decoded: text %r, diagnostic %r'
                                 % (txt, err.getvalue()[:120])))


def reuse_stream(res):
    """Python interface: one Parameters object (and one Parser object) used
    for several documents -- every call that puts a mark into the text prints
    its diagnostic, also when the same faulty text is parsed again"""
    import contextlib, io
    from yalafi import parameters, parser, utils
    for latex in ('Alpha \\verb|xyz\nBeta gamma', 'Alpha\n\\begin{verbatim}\nBeta gamma',
                  'Alpha $x + y Beta.\n\nDelta.', 'Alpha \\footnote{Beta gamma',
                  'Alpha beta \\verb', "Alpha \\'1 Beta"):
        parms = parameters.Parameters('en')
        p = None
        for k in range(3):
            if k != 1:
                p = parser.Parser(parms)        # call 1 re-uses the parser of call 0
            err = io.StringIO()
            try:
                with contextlib.redirect_stderr(err):
                    txt = utils.get_txt_pos(p.parse(latex))[0]
            except BaseException as e:
                res.failures.append(('c08-reuse:%r:%d' % (latex, k), {'latex': latex, 'call': k},
                                     'exception %r' % e))
                continue
            res.count('reuse', (latex, k), nontrivial=k > 0)
            mark, diag = MARK in txt, 'LaTeX error' in err.getvalue()
            if mark != diag:
                res.failures.append(('c08-reuse:%r:%d' % (latex, k), {'latex': latex, 'call': k},
                                     'call %d on one Parameters object: %s'
                                     % (k + 1, 'mark without diagnostic' if mark
                                        else 'diagnostic without mark')))


def run(tier, seed, build, res):
    reuse_stream(res)
    undecodable_stream(res)
    rng = random.Random(seed)
    res.rule = ('well-formed documents of the grammar (silent, no mark) and %d '
                'fault templates appended to random well-formed prefixes '
                '(optionally behind \\LTinput of an empty file); non-trivial = '
                'a case with an injected fault' % len(FAULTS))
    n = 300 if tier == 'quick' else 8000
    cases = []
    for c, d, kind in universe.gen_cases(rng, n, kinds=('doc',)):
        c.repl = None
        c.multi = False
        c.defs = ''
        c.extr = ''
        c.unkn = False
        c.nosp = False
        # strays are not well-formed
        if d is None or any(k in ('block:strayend', 'hash', 'accentverb',
                                  'block:usepkg', 'gls') for k in d.kinds):
            continue
        cases.append((c, d, kind))
    for w in WELL:
        cases.append((parsecase.T2T(w, lang='en', pack='*', files=dict(universe.FILES)),
                      docs.Doc(), 'doc'))
    cases += fault_cases(rng, 150 if tier == 'quick' else 3000)
    cases += accent_cases(rng, tier)
    for i in range(0, len(cases), 2000):
        universe.run(cases[i:i + 2000], res, 'faults', project, oracle,
                     sample_rule=lambda c, im: bool(im[2]))


def replay(payload, build, res):
    j = payload.get('case') or {}
    if 'latex' not in j:
        return False
    c = parsecase.T2T.from_json(j)
    universe.run([(c, None, 'replay')], res, 'replay', project, lambda *a: None)
    return not res.disagreements
