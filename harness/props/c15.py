"""C15 -- any proofreader answer gives an in-file report or a clean error, no
traceback.

Fault enumeration: a template answer with two matches; every single-field
deletion, every type change of every field, boundary / huge values of offsets
and lengths, every byte truncation, degenerate whole answers -- in all output
modes of `python -m yalafi.shell` (+ server emulation for a sample).
Correspondence with the model pipeline run_report (outcome class and
locations); oracle: no traceback, exit status 0 or 1, diagnostic on 1, every
location inside the file on 0."""
import copy, json, random
import core, shellrun, shellcase
from props import c14

PROP_FILE = 'props/C15.v'

TEX = ('Erste Zeile mit Fehlerr und Wört.\n'
       'Zweite $x$ Zeile \\textbf{noch} ein Worrt\\footnote{Fuß zeile}.\n'
       '\n'
       'Die Stra\\ss e und \\LaTeX{} hier, \\dots{} gut.\n'
       'Dritter Absatz — Ende\n'
       'Zeile sechs steht hier.\nZeile sieben steht hier.\nZeile acht steht hier.\n'
       'Zeile neun steht hier.\nZeile zehn und Schluss')
LANG = 'de-DE'


def template():
    tex2, parts = shellcase.shell_parts(TEX, LANG, False, 2)
    plain = parts[0][1]
    ms = []
    for w, rid in (('Fehlerr', 'SPELL'), ('Worrt', 'SPELLÜ')):
        o = plain.find(w)
        m = shellcase.lt_match(plain, o, len(w), rule=rid,
                               msg='Möglicher Fehler: „%s“' % w,
                               repls=('Fehler', 'Wört'))
        m['rule']['subId'] = '2'
        ms.append(m)
    return tex2, parts, {'software': {'name': 'LT'}, 'language': {'code': LANG},
                         'matches': ms}


def paths(v, pre=()):
    """all paths to values in a JSON tree"""
    out = [pre] if pre else []
    if isinstance(v, dict):
        for k in v:
            out += paths(v[k], pre + (k,))
    elif isinstance(v, list):
        for i, x in enumerate(v):
            out += paths(x, pre + (i,))
    return out


def set_path(root, path, val, delete=False):
    r = copy.deepcopy(root)
    cur = r
    for k in path[:-1]:
        cur = cur[k]
    if delete:
        del cur[path[-1]]
    else:
        cur[path[-1]] = val
    return r


SHAPES = [None, True, False, 0, -1, 1.5, 'str', [], {}, [1], {'a': 1}, [[]],
          10 ** 12]


HTML_STRINGS = ['a<br>\nb', 'https://x/<br>\n<br>\n<br>\n<br>\n<br>\n<br>\ny', '"><b>x',
                "'", '\n\n', '</span></a></td>', 'x\r\ny', '&lt;br&gt;\n']


def gen_faults(tier):
    tex2, parts, base = template()
    plain = parts[0][1]
    n = len(plain)
    out = [('valid', json.dumps(base).encode('utf-8'))]
    for p in paths(base):
        if p[0] != 'matches':
            continue
        out.append(('delete:%s' % '/'.join(map(str, p)),
                    json.dumps(set_path(base, p, None, delete=True)).encode()))
        for s in SHAPES:
            out.append(('type:%s=%r' % ('/'.join(map(str, p)), s),
                        json.dumps(set_path(base, p, s)).encode()))
    for mi in (0, 1):
        for fld in (('offset',), ('length',), ('context', 'offset'),
                    ('context', 'length')):
            for v in (-10 ** 30, -n - 5, -2, -1, 0, 1, n - 2, n - 1, n, n + 1,
                      n + 2, n + 3, 10 ** 9, 10 ** 30):
                p = ('matches', mi) + fld
                out.append(('value:%s=%d' % ('/'.join(map(str, p)), v),
                            json.dumps(set_path(base, p, v)).encode()))
    # every in-range (offset, length) pair on a coarse grid, zero length, ends
    grid = sorted(set([0, 1, n // 2, n - 2, n - 1]))
    for o in grid:
        for l in (0, 1, 2, n - o, n - o + 1, n):
            b = set_path(base, ('matches', 0, 'offset'), o)
            b = set_path(b, ('matches', 0, 'length'), l)
            out.append(('pair:%d,%d' % (o, l), json.dumps(b).encode()))
    # a long match over many lines with a short one inside it, both orders
    for name, o, l in (('nested:all', 0, n - 1), ('nested:most', 0, plain.find('Zeile acht')),
                       ('nested:tail', plain.find('Erste'), plain.find('Schluss') - plain.find('Erste'))):
        b = set_path(base, ('matches', 0, 'offset'), o)
        b = set_path(b, ('matches', 0, 'length'), l)
        out.append((name, json.dumps(b).encode()))
        b2 = json.loads(json.dumps(b))
        b2['matches'] = b2['matches'][::-1]
        out.append((name + ':swapped', json.dumps(b2).encode()))
    # two messages for the same word (spelling rule and style rule): every
    # fault in one of them while the other stays valid
    tied = json.loads(json.dumps(base))
    twin = json.loads(json.dumps(tied['matches'][1]))
    twin['message'] = 'Stil: anderes Wort'
    if isinstance(twin.get('rule'), dict):
        twin['rule']['id'] = 'STYLE_RULE'
    tied['matches'].append(twin)
    out.append(('tied:valid', json.dumps(tied).encode()))
    for p in paths(tied):
        if p[:2] not in (('matches', 1), ('matches', 2)) or len(p) > 4:
            continue
        out.append(('tied:delete:%s' % '/'.join(map(str, p)),
                    json.dumps(set_path(tied, p, None, delete=True)).encode()))
        for s in (None, 0, [], {}, 'str'):
            out.append(('tied:type:%s=%r' % ('/'.join(map(str, p)), s),
                        json.dumps(set_path(tied, p, s)).encode()))
    # text fields holding what the HTML report uses as its own separators
    for path in (('matches', 0, 'message'), ('matches', 0, 'rule', 'urls', 0, 'value'),
                 ('matches', 0, 'replacements', 0, 'value'), ('matches', 0, 'rule', 'id'),
                 ('matches', 1, 'rule', 'urls', 0, 'value')):
        for k, v in enumerate(HTML_STRINGS):
            out.append(('text:%s=%d' % ('/'.join(map(str, path)), k),
                        json.dumps(set_path(base, path, v)).encode()))
    # matches that map to the backslash of a text-producing macro
    cm = parts[0][2]
    for i in range(n):
        if tex2[cm[i] - 1] == '\\':
            for l in (0, 1, 2):
                b = set_path(base, ('matches', 0, 'offset'), i)
                b = set_path(b, ('matches', 0, 'length'), l)
                out.append(('pair:%d,%d' % (i, l), json.dumps(b).encode()))
    raw = json.dumps(base, ensure_ascii=False).encode('utf-8')
    step = 1 if tier == 'thorough' else 7
    cuts = set(range(0, len(raw), step))
    for i, byte in enumerate(raw):
        if byte >= 0x80:
            cuts.update((i, i + 1))
    for i in sorted(cuts):
        out.append(('truncate:%d' % i, raw[:i]))
    for name, b in (('empty', b''), ('null', b'null'), ('list', b'[]'),
                    ('obj', b'{}'), ('matches-null', b'{"matches": null}'),
                    ('matches-str', b'{"matches": "x"}'),
                    ('garbage', b'\xff\xfe\x00garbage'),
                    ('html', b'<html>Error 500</html>'),
                    ('nan', b'{"matches": [{"offset": NaN, "length": 1}]}'),
                    ('dup', b'{"matches": [], "matches": 5}'),
                    ('nested', b'[' * 2000 + b']' * 2000),
                    ('surrogate', json.dumps(set_path(
                        base, ('matches', 0, 'message'), 'a\ud800b')).encode()),
                    ('surrogate-ctx', json.dumps(set_path(
                        base, ('matches', 0, 'context', 'text'),
                        'Erste \udc00Zeile mit Fehlerr')).encode())):
        out.append((name, b))
    return tex2, parts, out


def in_file_oracle(tex, mode, out):
    """every location of a successful report lies inside the file"""
    lines = tex.split('\n')
    nl = tex.count('\n') + 1
    bad = []
    if mode == 'plain':
        for lin, col in shellcase.parse_plain(out):
            if not (1 <= lin <= nl and 1 <= col <= len(lines[lin - 1]) + 1):
                bad.append('line %d column %d' % (lin, col))
    elif mode == 'json':
        for o, l, fy, fx, ty, tx in shellcase.parse_json(out):
            if not (0 <= o < len(tex) and 0 <= o + l - 1 < len(tex)):
                bad.append('offset %d length %d' % (o, l))
            if not (0 <= fy < nl and 0 <= ty < nl and 0 <= fx <= len(lines[fy])
                    and 0 <= tx <= len(lines[ty]) + 1):
                bad.append('priv %r' % ((fy, fx, ty, tx),))
    elif mode in ('xml', 'xml-b'):
        for fy, fx, ty, tx in shellcase.parse_xml(out):
            ok = 0 <= fy < nl and 0 <= ty < nl
            if ok:
                l1 = lines[fy] if mode == 'xml' else lines[fy].encode('utf-8')
                l2 = lines[ty] if mode == 'xml' else lines[ty].encode('utf-8')
                ok = 0 <= fx <= len(l1) and 0 <= tx <= len(l2) + 1
            if not ok:
                bad.append('xml %r' % ((fy, fx, ty, tx),))
    elif mode == 'html':
        for n_, cell in shellcase.html_cells(out):
            if n_ is not None and not (1 <= n_ <= nl):
                bad.append('html line %d' % n_)
    elif mode == 'server':
        for m in json.loads(out)['matches']:
            o, l = m['offset'], m['length']
            if not (0 <= o < len(tex) and 0 <= o + l - 1 < len(tex)):
                bad.append('offset %d length %d' % (o, l))
    return bad


def run(tier, seed, build, res):
    tex2, parts, faults = gen_faults(tier)
    modes = list(shellcase.MODES)
    res.rule = ('fault enumeration on a template answer with two matches: '
                'every single-field deletion, every field replaced by %d JSON '
                'shapes, boundary/huge values of offset/length (match and '
                'context), a grid of in-range (offset, length) pairs, byte '
                'truncations (%s), degenerate answers; x modes %r; a case is '
                'non-trivial when the answer is not the valid template'
                % (len(SHAPES), 'all' if tier == 'thorough' else
                   'every 7th byte + all cuts inside multi-byte characters',
                   modes))
    res.extra['exhaustive'] = tier == 'thorough'
    jobs = [(name, b, mode) for name, b in faults for mode in modes]
    # the HTML report with --link (the rule URL becomes an attribute value)
    jobs += [(name, b, 'html-link') for name, b in faults
             if 'urls' in name or name.split(':')[0] in ('valid', 'text', 'pair')]
    c = {'tex': TEX, 'language': LANG, 'multi': False, 'mlc': 2}

    def one(job):
        name, b, mode = job
        margs = ['--output', 'html', '--link'] if mode == 'html-link' else ['--output', mode]
        return shellrun.run_shell({'t.tex': TEX},
                                  ['--language', LANG] + margs + ['t.tex'],
                                  answers=[b])
    results = shellrun.pmap(one, jobs)
    lines = [shellcase.model_line('html' if mode == 'html-link' else mode, False, tex2, parts, [b])
             for name, b, mode in jobs]
    outs = core.run_model(lines, shards=4)
    for (name, b, mode), r, o in zip(jobs, results, outs):
        mo = shellcase.parse_model_report(o)
        oc = shellcase.shell_outcome(r)
        kind = name.split(':')[0]
        res.count('faults', (name, mode), nontrivial=(name != 'valid'))
        res.dist('fault=%s' % kind)
        res.dist('outcome=%s' % oc)
        case = {'fault': name, 'mode': mode, 'tex': TEX,
                'answer_b64': __import__('base64').b64encode(b).decode()}
        if len(res.samples) < 8 and kind in ('type', 'truncate', 'value'):
            res.sample({'fault': name, 'mode': mode, 'outcome': oc})
        key = 'c15:%s:%s' % (mode, name)
        bad = None
        if oc == 'EXC':
            bad = 'unhandled exception: ' + r.err.strip().split('\n')[-1][:200]
        elif oc not in ('OK', 'FATAL'):
            bad = 'exit status %d without the shell diagnostic: %s' % (
                r.rc, r.err[-200:])
        elif oc == 'OK':
            try:
                b2 = in_file_oracle(tex2, 'html' if mode == 'html-link' else mode,
                                    r.out.decode('utf-8'))
            except Exception as e:
                b2 = ['report cannot be parsed: %r' % e]
            if b2:
                bad = 'location outside the file: ' + '; '.join(b2[:3])
        if bad:
            res.failures.append((key, case, bad))
        # correspondence: outcome class and, for reports, the locations
        if mode == 'html-link':
            pass        # the model has no --link; decided by the oracle above
        elif mo[0] != oc and not (mo[0] == 'OK' and oc == 'OK'):
            res.disagreements.append(('faults', case, 'shell %s' % oc,
                                      'model %r' % (mo,)))
        elif oc == 'OK' and mode in ('plain', 'json', 'xml', 'xml-b'):
            try:
                out = r.out.decode('utf-8')
                if mode == 'plain':
                    got = shellcase.parse_plain(out)
                    want = [(l[3], l[4]) for l in mo[1]]
                elif mode == 'json':
                    got = shellcase.parse_json(out)
                    want = [l[1:7] for l in mo[1]]
                else:
                    got = shellcase.parse_xml(out)
                    want = [l[3:7] for l in mo[1]]
                if got != want:
                    res.disagreements.append(('faults', case, repr(got),
                                              repr(want)))
            except Exception as e:
                res.disagreements.append(('faults', case, 'unparsable %r' % e, ''))
    server_sample(tex2, parts, faults, res, tier)


def server_sample(tex2, parts, faults, res, tier):
    """the same answers through the server emulation (one process)"""
    pick = [f for f in faults if f[0].split(':')[0] in
            ('valid', 'delete', 'value', 'empty', 'garbage', 'surrogate')]
    pick = pick[::(9 if tier == 'quick' else 2)]
    c = {'tex': TEX, 'language': LANG, 'multi': False, 'mlc': 2,
         'answers': [b'{"matches": []}']}
    for name, b in pick:
        srv = c14.Server(dict(c, answers=[b]))
        try:
            r = srv.post(tex2, LANG)
            oc = 'OK'
            bad = in_file_oracle(tex2, 'server', r.out.decode('utf-8'))
        except Exception as e:
            # the request fails when the shell process ends with its fatal
            # exit; a traceback on stderr is the failure we look for
            srv.p.kill()
            err = srv.p.stderr.read().decode('utf-8', 'replace')
            oc = 'EXC' if 'Traceback' in err and 'SystemExit' not in err \
                and 'internal error' not in err else 'FATAL'
            bad = ['server: ' + err.strip().split('\n')[-1][:200]] if oc == 'EXC' else []
        finally:
            srv.close()
        res.count('server', (name, 'server'), nontrivial=(name != 'valid'))
        res.dist('server-outcome=%s' % oc)
        if bad:
            res.failures.append(('c15:server:%s' % name,
                                 {'fault': name, 'mode': 'server'},
                                 '; '.join(bad[:3])))


def replay(payload, build, res):
    import base64
    c = payload.get('case') or {}
    if 'answer_b64' not in c:
        return False
    b = base64.b64decode(c['answer_b64'])
    tex2, parts, _ = gen_faults('quick')
    mode = c['mode']
    r = shellrun.run_shell({'t.tex': TEX}, ['--language', LANG, '--output', mode,
                                            't.tex'], answers=[b])
    oc = shellcase.shell_outcome(r)
    if oc == 'EXC':
        res.failures.append(('replay', c, 'unhandled exception: '
                             + r.err.strip().split('\n')[-1][:200]))
    elif oc == 'OK':
        bad = in_file_oracle(tex2, mode, r.out.decode('utf-8'))
        if bad:
            res.failures.append(('replay', c, '; '.join(bad[:3])))
    return True
