"""C09 -- user macro definitions expand by TeX substitution, in order, from
any source.

Generator of non-recursive definition sets (\\newcommand with 0-9 parameters
and optional default, \\renewcommand, \\def) with its own substitution
semantics; uses in text, nested, single-token arguments, before the
definition, at the very end of the text / of an argument.  The same
definitions supplied in the document, with --defs and through \\LTinput: same
text, positions shifted by a constant.  Correspondence with the model."""
import random, re
import core, parsecase, universe

PROP_FILE = 'props/C09.v'


def project(r):
    if r[0] != 'OK':
        return (r[0],)
    return ('OK', [(lang, t, p) for lang, t, p in universe.texts_of(r)])


class Mac:
    def __init__(self, name, nargs, default, body):
        self.name = name; self.nargs = nargs; self.default = default; self.body = body

    def define(self, rng):
        # body: list of str or int (parameter number)
        b = ''.join(('#%d' % x) if isinstance(x, int) else x[0] if isinstance(x, tuple) else x
                    for x in self.body)
        if self.default is None and rng.random() < 0.3 and self.nargs <= 9:
            return '\\def' + self.name + ''.join('#%d' % i for i in range(1, self.nargs + 1)) \
                + '{' + b + '}'
        s = rng.choice(['\\newcommand', '\\renewcommand', '\\newcommand*'])
        s += '{' + self.name + '}'
        if self.nargs:
            s += '[%d]' % self.nargs
        if self.default is not None:
            s += '[' + self.default + ']'
        return s + '{' + b + '}'

    def expand(self, args):
        return ''.join(args[x - 1] if isinstance(x, int) else x[1] if isinstance(x, tuple) else x
                       for x in self.body)


def gen_set(rng, words):
    macs = []
    for k in range(rng.randint(1, 4)):
        name = '\\m' + 'abcd'[k]
        nargs = rng.choice([0, 0, 1, 1, 2, 3, 9])
        default = None
        if nargs and rng.random() < 0.4:
            default = 'D' + 'abcd'[k]
        body = []
        for _ in range(rng.randint(0, 4)):
            if nargs and rng.random() < 0.6:
                body.append(rng.randint(1, nargs))
            elif rng.random() < 0.15:
                # a control word in the body whose name starts like the name
                # being defined, or contains it: another macro (undeclared:
                # it vanishes; built-in: its text)
                body.append(rng.choice([(name + 'xx{}', ''), (name + 'long{}', ''),
                                        ('\\LaTeX{}', 'LaTeX'), ('\\x' + name[1:] + '{}', '')]))
            else:
                body.append(rng.choice(['x', 'Y', '(', ')', 'w' + 'abcd'[k], ' ']))
        macs.append(Mac(name, nargs, default, body))
    return macs


def gen_use(rng, macs, depth, counter):
    """returns (latex, expected text)"""
    m = rng.choice(macs)
    tex = m.name
    args = []
    first = 1
    if m.default is not None:
        if rng.random() < 0.5:
            a_tex, a_exp = gen_arg(rng, macs, depth, counter)
            # as in LaTeX, a bracket inside an optional argument needs braces
            tex += '[' + ('{' + a_tex + '}' if ']' in a_tex else a_tex) + ']'
            args.append(a_exp)
        else:
            args.append(m.default)
        first = 2
    for i in range(first, m.nargs + 1):
        if rng.random() < 0.2:
            c = rng.choice('pqr')
            # single-token argument; a blank keeps it apart from the name
            tex += (' ' if (tex[-1].isalpha() and i == first and
                            m.default is None or tex[-1].isalpha()) else '') + c
            args.append(c)
        else:
            a_tex, a_exp = gen_arg(rng, macs, depth, counter)
            tex += '{' + a_tex + '}'
            args.append(a_exp)
    if m.nargs == 0 or tex[-1].isalpha():
        tex += '{}'
    return tex, m.expand(args)


def gen_arg(rng, macs, depth, counter):
    parts_t, parts_e = [], []
    for _ in range(rng.randint(1, 2)):
        if depth > 0 and rng.random() < 0.3:
            t, e = gen_use(rng, macs, depth - 1, counter)
        else:
            counter[0] += 1
            t = e = 'A%d' % counter[0]
        parts_t.append(t)
        parts_e.append(e)
    return ' '.join(parts_t), ' '.join(parts_e)


def make_case(rng):
    macs = gen_set(rng, None)
    counter = [0]
    defs = '\n'.join(m.define(rng) for m in macs) + '\n'
    body_t, body_e = [], []
    for _ in range(rng.randint(1, 5)):
        if rng.random() < 0.7:
            t, e = gen_use(rng, macs, 2, counter)
        else:
            counter[0] += 1
            t = e = 'B%d' % counter[0]
        body_t.append(t)
        body_e.append(e)
    body = ' '.join(body_t)
    exp = ' '.join(body_e)
    if rng.random() < 0.3:
        body = 'Start\\footnote{fn} ' + body
        exp = 'Start ' + exp
        foot = True
    else:
        foot = False
    return defs, body, exp, foot


def norm(s):
    return re.sub(r'\s+', ' ', s).strip()


def _run_own(tier, seed, build, res):
    rng = random.Random(seed)
    res.rule = ('random sets of 1-4 non-recursive definitions (\\newcommand, '
                '\\renewcommand, \\def; 0,1,2,3,9 parameters; optional default) '
                'and documents using them (nested to depth 2, single-token '
                'arguments, use as last token, footnote before \\LTinput), '
                'supplied in the document / with defs / through \\LTinput; '
                'non-trivial = a document with at least one macro use')
    n = 250 if tier == 'quick' else 6000
    universe.scratch_dir()
    import os
    cases = []
    metas = {}
    for i in range(n):
        defs, body, exp, foot = make_case(rng)
        fname = 'c09defs.tex'
        c1 = parsecase.T2T(defs + body, lang='en', pack='', files={})
        c2 = parsecase.T2T(body, lang='en', pack='', defs=defs, files={})
        c3 = parsecase.T2T('\\LTinput{%s}\n' % fname + body, lang='en', pack='',
                           files={fname: defs})
        c4 = None
        if foot:
            # the definitions in the middle, behind the footnote
            b0, b1 = body.split(' ', 1)
            c4 = parsecase.T2T(b0 + '\n\\LTinput{%s}\n' % fname + b1, lang='en',
                               pack='', files={fname: defs})
        metas[i] = (defs, body, exp, foot, [c1, c2, c3, c4])
    lines = []
    for i, (defs, body, exp, foot, cs) in metas.items():
        lines += [parsecase.model_line_t2t(c) for c in cs if c]
    all_outs = core.run_model(lines, shards=16)
    pos = 0
    for i, (defs, body, exp, foot, cs) in metas.items():
        with open('c09defs.tex', 'w') as f:
            f.write(defs)
        cnt = len([c for c in cs if c])
        outs = all_outs[pos:pos + cnt]
        pos += cnt
        ims = []
        k = 0
        for c in cs:
            if c is None:
                ims.append(None)
                continue
            im = parsecase.run_t2t(c)
            mo = parsecase.parse_model_t2t(outs[k]); k += 1
            ims.append(im)
            res.count('routes', c.key(), nontrivial='\\m' in body)
            if project(im) != project(mo):
                res.disagreements.append(('routes', c.json(), repr(project(im))[:300],
                                          repr(project(mo))[:300]))
        case = {'defs': defs, 'body': body, 'expected': exp}
        key = 'c09:%r:%r' % (defs, body)
        if len(res.samples) < 4:
            res.sample(case)
        if any(im is not None and im[0] != 'OK' for im in ims):
            res.failures.append((key, case, 'no result: %r' % [im[:2] for im in ims if im]))
            continue
        t1, p1 = ims[0][1][1], ims[0][1][2]
        t2, p2 = ims[1][1][1], ims[1][1][2]
        t3, p3 = ims[2][1][1], ims[2][1][2]
        want = norm(exp + (' fn' if foot else ''))
        if norm(t2) != want:
            res.failures.append((key, case, 'expansion gives %r, TeX substitution '
                                 'gives %r' % (norm(t2), want)))
            continue
        if norm(t1) != norm(t2) or norm(t3) != norm(t2):
            res.failures.append((key, case, 'the three routes give different '
                                 'texts: %r / %r / %r' % (t1, t2, t3)))
            continue
        # positions: shifted by a constant (non-blank characters)
        for (ta, pa, name, shift) in ((t1, p1, 'document', len(defs)),
                                      (t3, p3, '\\LTinput', len('\\LTinput{c09defs.tex}\n'))):
            a = [x for ch, x in zip(ta, pa) if not ch.isspace()]
            b = [x for ch, x in zip(t2, p2) if not ch.isspace()]
            if len(a) != len(b) or any(x - y != shift for x, y in zip(a, b)):
                res.failures.append((key, case, 'positions with definitions in the '
                                     '%s are not those of --defs shifted by %d'
                                     % (name, shift)))
                break
        if ims[3] is not None and norm(ims[3][1][1]) != want:
            res.failures.append((key, case, '\\LTinput behind a footnote: %r, '
                                 'expected %r' % (norm(ims[3][1][1]), want)))
    # uses before the definition / redefinition affects later uses only
    rfiles = {'c09r.tex': '\\newcommand{\\xr}{Alice}\\renewcommand{\\xs}[1]{(#1)}\n',
              'c09q.tex': '\\renewcommand{\\xr}{Dora}\n'}
    for f, t in rfiles.items():
        with open(f, 'w') as fh:
            fh.write(t)
    for latex, want in (('\\xa{} A \\newcommand{\\xa}{one} \\xa{} B '
                         '\\renewcommand{\\xa}{two} \\xa{} C', 'A one B two C'),
                        ('\\newcommand{\\xb}[1][dd]{<#1>}Z \\xb', 'Z <dd>'),
                        ('\\newcommand{\\xb}[2][dd]{<#1#2>}\\footnote{T \\xb q}', '<ddq>'),
                        # the same file read again: its definitions apply again
                        ('\\newcommand{\\xs}[1]{#1}\\LTinput{c09r.tex}\n\\xr{} A '
                         '\\renewcommand{\\xr}{Carol}\\xr{} B\n\\LTinput{c09r.tex}\n\\xr{} C',
                         'Alice A Carol B Alice C'),
                        ('\\newcommand{\\xs}[1]{#1}\\LTinput{c09r.tex}\n\\xr{} A\n'
                         '\\LTinput{c09q.tex}\n\\xr{} B\n\\LTinput{c09r.tex}\n\\xr{} \\xs{C}',
                         'Alice A Dora B Alice (C)'),
                        ('\\newcommand{\\xb}[1][D]{<#1>}A \\xb', 'A <D>'),
                        # a redefinition affects later uses only, also for detached text
                        ('\\newcommand{\\xa}{one}A\\footnote{F \\xa{} G} \\renewcommand{\\xa}{two}'
                         'B \\xa{} C', 'F one G'),
                        ('A\\footnote{F \\xq{} G} \\newcommand{\\xq}{late} B \\xq{} C', 'F G'),
                        ('\\newcommand{\\xb}[1][D]{<#1>}\\textbf{A \\xb}\n', 'A <D>'),
                        # a redefinition of a package macro survives a later package
                        # that requires the first (class options in force)
                        ('\\documentclass[12pt]{article}\\usepackage{amsmath}'
                         '\\renewcommand{\\eqref}[1]{Eq #1}\\usepackage{mathtools}See \\eqref{a}.',
                         'See Eq a.'),
                        ('\\documentclass[a4paper,12pt]{scrartcl}\\usepackage{tikz}'
                         '\\renewcommand{\\tikzset}[1]{TS}\\usepackage{pgfplots}A \\tikzset{x} B',
                         'A TS B'),
                        ('\\usepackage{amsmath}\\renewcommand{\\eqref}[1]{Eq #1}'
                         '\\usepackage{mathtools}See \\eqref{a}.', 'See Eq a.')):
        c = parsecase.T2T(latex, lang='en', pack='', files=dict(rfiles))
        im = parsecase.run_t2t(c)
        res.count('order', c.key())
        mo = parsecase.parse_model_t2t(core.run_model([parsecase.model_line_t2t(c)])[0])
        if project(im) != project(mo):
            res.disagreements.append(('order', c.json(), repr(project(im))[:300],
                                      repr(project(mo))[:300]))
        if im[0] != 'OK' or want not in norm(im[1][1]):
            res.failures.append(('c09-order:%r' % latex, c.json(),
                                 'expected %r in %r' % (want, im[1][1] if im[0] == 'OK' else im)))


def undefined_uses(res):
    """a use that precedes the definition (in the document, in an \\LTinput
    file) is a use of an undeclared name: not expanded, and reported as such
    by --unkn whatever is defined later"""
    rfiles = {'c09r.tex': '\\newcommand{\\xr}{Alice}\\renewcommand{\\xs}[1]{(#1)}\n'}
    for latex, want in (
            ('\\xa{} A \\newcommand{\\xa}{one} \\xa{} B', ['\\xa']),
            ('A \\xq B \\def\\xq{late} \\xq{} C \\xz', ['\\xq', '\\xz']),
            ('\\xr{} A\n\\LTinput{c09r.tex}\n\\xr{} B \\xy', ['\\xr', '\\xy']),
            ('A\\footnote{F \\xq{} G} \\newcommand{\\xq}{late} B \\xq{} C', ['\\xq']),
            ('\\newcommand{\\xa}{one} \\xa{} B', [])):
        c = parsecase.T2T(latex, lang='en', pack='', unkn=True, files=dict(rfiles))
        im = parsecase.run_t2t(c)
        res.count('undefined-uses', c.key())
        mo = parsecase.parse_model_t2t(core.run_model([parsecase.model_line_t2t(c)])[0])
        if project(im) != project(mo):
            res.disagreements.append(('undefined-uses', c.json(), repr(project(im))[:300],
                                      repr(project(mo))[:300]))
        got = [n for n in im[1][1].split('\n') if n] if im[0] == 'OK' else im
        if got != want:
            res.failures.append(('c09-undef:%r' % latex, c.json(),
                                 'names used before / without a definition: %r, '
                                 'listed: %r' % (want, got)))


def nosp_route(res):
    """the three routes with --nosp and the preamble line the documentation
    recommends for real LaTeX runs (\\LTinput must stay the filter's macro)"""
    universe.scratch_dir()
    defs = '\\newcommand{\\rr}[1]{R(#1)}\n'
    with open('c09n.tex', 'w') as f:
        f.write(defs)
    body = 'A \\rr{x} B\n'
    for nosp in (False, True):
        pre = '\\newcommand{\\LTinput}[1]{}\n'
        c1 = parsecase.T2T(pre + '\\LTinput{c09n.tex}\n' + body, lang='en', pack='', nosp=nosp,
                           files={'c09n.tex': defs})
        c2 = parsecase.T2T(body, lang='en', pack='', nosp=nosp, defs=defs, files={})
        r1, r2 = parsecase.run_t2t(c1), parsecase.run_t2t(c2)
        res.count('nosp-route', c1.key())
        t1 = norm(r1[1][1]) if r1[0] == 'OK' else repr(r1[:2])
        t2 = norm(r2[1][1]) if r2[0] == 'OK' else repr(r2[:2])
        if t1 != t2 or 'R(x)' not in t1:
            res.failures.append(('c09-nosp:%r' % nosp, c1.json(),
                                 'definitions read by \\LTinput give %r, with --defs %r '
                                 '(nosp=%r)' % (t1, t2, nosp)))


def run(tier, seed, build, res):
    undefined_uses(res)
    _run_own(tier, seed, build, res)
    nosp_route(res)
    # snippets of /repo's own tests and their mutations (harness/seeds.py)
    universe.run_seeds(random.Random(seed + 7), res, project, tier, share=0.6)
    universe.heading_finding('C09', res)


def replay(payload, build, res):
    j = payload.get('case') or {}
    if 'defs' in j and 'body' in j:
        c2 = parsecase.T2T(j['body'], lang='en', pack='', defs=j['defs'], files={})
        im = parsecase.run_t2t(c2)
        if im[0] != 'OK' or norm(im[1][1]) != norm(j['expected']):
            res.failures.append(('replay', j, 'expansion %r' % (im[1][1] if im[0] == 'OK' else im,)))
        return True
    return False
