#!/bin/bash
# Build the framework from files on disk only (offline): regenerate coq/gen
# from /repo, full .vo build of the Coq development, extraction, OCaml driver.
set -e
cd "$(dirname "$0")"
export PYTHONHASHSEED=0
/venv/bin/python - <<'PY'
import sys
sys.path.insert(0, 'harness')
import core
b = core.ensure_build()
print(b.log[-2000:])
print('build ok:', b.ok, 'failed:', b.failed_files, 'wall %.1fs' % b.wall)
sys.exit(0 if b.ok else 1)
PY
