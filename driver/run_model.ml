(* Driver for the extracted model: one case per input line, one result line
   per case.  A line is an operation name followed by integers; a list is
   written as its length followed by its elements.  Hand-written glue only:
   conversions between OCaml int and the extracted inductive numbers, and
   printing. *)
open Model
type string = Stdlib.String.t

let rec pos_of_int (n : int) : positive =
  if n = 1 then XH
  else if n land 1 = 0 then XO (pos_of_int (n lsr 1))
  else XI (pos_of_int (n lsr 1))
let n_of_int (n : int) : n = if n = 0 then N0 else Npos (pos_of_int n)
let z_of_int (n : int) : z =
  if n = 0 then Z0 else if n > 0 then Zpos (pos_of_int n)
  else Zneg (pos_of_int (- n))
let rec int_of_pos (p : positive) : int =
  match p with XH -> 1 | XO q -> 2 * int_of_pos q | XI q -> 2 * int_of_pos q + 1
let int_of_n (x : n) : int = match x with N0 -> 0 | Npos p -> int_of_pos p
let int_of_z (x : z) : int =
  match x with Z0 -> 0 | Zpos p -> int_of_pos p | Zneg p -> - (int_of_pos p)
let rec nat_of_int (n : int) : nat = if n <= 0 then O else S (nat_of_int (n - 1))
let int_of_nat (x : nat) : int =
  let rec go acc x = match x with O -> acc | S y -> go (acc + 1) y in go 0 x

(* ---- reading ---- *)
type rd = { toks : string array; mutable i : int }
let next_int r =
  let v = int_of_string r.toks.(r.i) in r.i <- r.i + 1; v
let rd_list r f =
  let n = next_int r in
  let rec go k acc = if k = 0 then List.rev acc else go (k - 1) (f r :: acc) in
  go n []
let rd_str r = rd_list r (fun r -> n_of_int (next_int r))
let rd_zlist r = rd_list r (fun r -> z_of_int (next_int r))
let rd_bool r = next_int r <> 0
let rd_nat r = nat_of_int (next_int r)

(* ---- printing ---- *)
let b = Buffer.create 65536
let pi n = Buffer.add_string b (string_of_int n); Buffer.add_char b ' '
let pr_list f l = pi (List.length l); List.iter f l
let pr_str s = pr_list (fun c -> pi (int_of_n c)) s
let pr_zlist l = pr_list (fun z -> pi (int_of_z z)) l
let pr_bool v = pi (if v then 1 else 0)
let pr_nat v = pi (int_of_nat v)
let exn_name = function
  | IndexError -> "IndexError" | KeyError -> "KeyError"
  | TypeError -> "TypeError" | ValueError -> "ValueError"
  | UnicodeDecodeError -> "UnicodeDecodeError"
  | UnicodeEncodeError -> "UnicodeEncodeError"
  | OverflowError -> "OverflowError" | AttributeError -> "AttributeError"
  | RecursionError -> "RecursionError" | StopIteration -> "StopIteration"
let pr_result f = function
  | Ok a -> Buffer.add_string b "OK "; f a
  | Exc e -> Buffer.add_string b ("EXC " ^ exn_name e)
  | Fatal c -> Buffer.add_string b "FATAL "; pi (int_of_nat c)
  | OutOfFuel -> Buffer.add_string b "FUEL"

let pr_message m =
  pr_nat m.m_offset; pr_nat m.m_length;
  pr_str m.m_context.cx_text; pr_nat m.m_context.cx_offset;
  pr_nat m.m_context.cx_length

let rec rd_json r : json =
  match next_int r with
  | 0 -> JNull
  | 1 -> JBool (rd_bool r)
  | 2 -> JInt (z_of_int (next_int r))
  | 3 -> JFloat
  | 4 -> JStr (rd_str r)
  | 5 -> JArr (rd_list r rd_json)
  | 6 -> JObj (rd_list r (fun r -> let k = rd_str r in let v = rd_json r in (k, v)))
  | _ -> raise Not_found
let rd_mode r = match next_int r with
  | 0 -> MPlain | 1 -> MJson | 2 -> MXml | 3 -> MXmlB | 4 -> MHtml | _ -> MServer
let pz z = pi (int_of_z z)

let rd_tok r : tok =
  let k = next_int r in let p = z_of_int (next_int r) in
  let f = rd_bool r in let t = rd_str r in
  let kd = match k with
    | 0 -> KText | 1 -> KSpace | 2 -> KPar | 3 -> KComment | 4 -> KSpecial
    | 5 -> KMacro | 6 -> KBegin | 7 -> KEnd | 8 -> KItem | 9 -> KAccent
    | 10 -> KVerb (rd_bool r) | 11 -> KArg (rd_nat r) | 12 -> KAction
    | 13 -> KVoid
    | 14 -> let l = rd_str r in let b = rd_bool r in let h = rd_bool r in
            let k = rd_bool r in KLang (l, b, h, k)
    | 15 -> KMathBegin (rd_str r)
    | 16 -> KMathElem | 17 -> KMathOper | _ -> KMathSpace in
  { tk = kd; pos = p; txt = t; pfix = f }
let pr_tok (t : tok) =
  let code = match t.tk with
    | KText -> 0 | KSpace -> 1 | KPar -> 2 | KComment -> 3 | KSpecial -> 4
    | KMacro -> 5 | KBegin -> 6 | KEnd -> 7 | KItem -> 8 | KAccent -> 9
    | KVerb _ -> 10 | KArg _ -> 11 | KAction -> 12 | KVoid -> 13
    | KLang _ -> 14 | KMathBegin _ -> 15 | KMathElem -> 16 | KMathOper -> 17
    | KMathSpace -> 18 in
  pi code; pi (int_of_z t.pos); pr_bool t.pfix; pr_str t.txt;
  (match t.tk with
   | KVerb e -> pr_bool e | KArg n -> pr_nat n
   | KLang (l, b, h, k) -> pr_str l; pr_bool b; pr_bool h; pr_bool k
   | KMathBegin e -> pr_str e
   | _ -> ())
let pr_diag (d : diag) = pi (int_of_z d.d_line); pi (int_of_z d.d_col); pr_str d.d_msg

let dispatch op r =
  match op with
  | "replace_phrases" ->
      let txt = rd_str r in let pos = rd_zlist r in let lines = rd_list r rd_str in
      pr_result (fun (t, p) -> pr_str t; pr_zlist p)
        (m_replace_phrases txt pos lines)
  | "finditer" ->
      let ws = rd_list r rd_str in let txt = rd_str r in
      pr_list (fun (s, m) -> pr_nat s; pr_nat m) (m_finditer ws txt)
  | "single_letters" ->
      let plain = rd_str r in let has = rd_bool r in let opt = rd_str r in
      pr_list pr_message
        (m_single_letter_matches plain (if has then Some opt else None))
  | "equation" ->
      let plain = rd_str r in let pls = rd_list r rd_str in
      pr_list pr_message (m_equation_messages plain pls)
  | "report" ->
      let md = rd_mode r in let link = rd_bool r in let tex = rd_str r in
      let parts = rd_list r (fun r ->
          let plain = rd_str r in let cm = rd_zlist r in
          let has = rd_bool r in
          let ans = if has then Some (rd_json r) else None in
          { rp_plain = plain; rp_map = cm; rp_answer = ans }) in
      pr_result (fun ls -> pr_list (fun l ->
          pr_nat l.l_id; pz l.l_offset; pz l.l_length;
          pz l.l_a; pz l.l_b; pz l.l_c; pz l.l_d) ls)
        (m_run_report md link tex parts)
  | "map_match" ->
      let o = z_of_int (next_int r) in let l = z_of_int (next_int r) in
      let tex = rd_str r in let cm = rd_zlist r in
      pr_result (fun (a, b) -> pz a; pz b) (m_map_match_position o l tex cm)
  | "file_list" ->
      let skips = rd_list r rd_str in
      let fs = rd_list r (fun r -> let n = rd_str r in let v = rd_list r rd_str in (n, v)) in
      let incl = rd_bool r in let files = rd_list r rd_str in
      let skip f = List.exists (fun s -> s = f) skips in
      pr_result (fun l -> pr_list pr_str l) (m_file_list skip fs incl files)
  | "html" ->
      let ctx = z_of_int (next_int r) in
      let tex = rd_str r in let cm = rd_zlist r in
      let ms = rd_list r (fun r ->
          let o = z_of_int (next_int r) in let l = z_of_int (next_int r) in
          let msg = rd_str r in let ct = rd_str r in
          let co = z_of_int (next_int r) in let cl = z_of_int (next_int r) in
          let rule = rd_str r in let repls = rd_list r rd_str in
          let has = rd_bool r in let url = rd_str r in
          { hm_offset = o; hm_length = l; hm_message = msg; hm_ctx_text = ct;
            hm_ctx_offset = co; hm_ctx_length = cl; hm_rule = rule;
            hm_repls = repls; hm_url = if has then Some url else None }) in
      let file = rd_str r in
      pr_result pr_str (m_generate_html ctx tex cm ms file)
  | "protect_html" -> pr_str (m_protect_html (rd_str r))
  | "scan" ->
      let (ts, ds) = m_scan (rd_str r) in
      pr_list pr_tok ts; pr_list pr_diag ds
  | "rpal" ->
      pr_result (fun ts -> pr_list pr_tok ts) (m_rpal (rd_list r rd_tok))
  | "get_txt_pos" ->
      let (t, p) = m_get_txt_pos (rd_list r rd_tok) in pr_str t; pr_zlist p
  | "parse" ->
      let nosp = rd_bool r in
      let files = rd_list r (fun r -> let n = rd_str r in let c = rd_str r in (n, c)) in
      let lang = rd_str r in let multi = rd_bool r in let simple = rd_bool r in
      let mods = rd_list r (fun r -> let c = rd_bool r in let n = rd_str r in (c, n)) in
      let define = rd_str r in let latex = rd_str r in
      let extr = rd_list r rd_str in let fuel = rd_nat r in
      pr_result (fun o -> pr_list pr_tok o.po_toks; pr_list pr_str o.po_unknowns;
                          pr_list pr_diag o.po_diags)
        (m_run_parse nosp files lang multi simple mods define latex extr fuel)
  | "in_class" ->
      let nosp = rd_bool r in
      let files = rd_list r (fun r -> let n = rd_str r in let c = rd_str r in (n, c)) in
      let lang = rd_str r in let multi = rd_bool r in let simple = rd_bool r in
      let mods = rd_list r (fun r -> let c = rd_bool r in let n = rd_str r in (c, n)) in
      let define = rd_str r in let latex = rd_str r in
      let extr = rd_list r rd_str in let fuel = rd_nat r in
      pr_result (fun b -> pi (if b then 1 else 0))
        (m_in_class nosp files lang multi simple mods define latex extr fuel)
  | "tex2txt" ->
      let nosp = rd_bool r in
      let files = rd_list r (fun r -> let n = rd_str r in let c = rd_str r in (n, c)) in
      let lang = rd_str r in let multi = rd_bool r in let simple = rd_bool r in
      let mods = rd_list r (fun r -> let c = rd_bool r in let n = rd_str r in (c, n)) in
      let define = rd_str r in let latex = rd_str r in
      let extr = rd_list r rd_str in
      let has_repl = rd_bool r in let repl = rd_list r rd_str in
      let unkn = rd_bool r in let thresh = rd_nat r in let fuel = rd_nat r in
      pr_result (fun o ->
          (match o.to_result with
           | TSingle (t, p) -> pi 0; pr_str t; pr_zlist p
           | TMulti parts -> pi 1;
               pr_list (fun (l, ps) -> pr_str l;
                         pr_list (fun (t, p) -> pr_str t; pr_zlist p) ps) parts);
          pr_list pr_str o.to_unknowns; pr_list pr_diag o.to_diags)
        (m_run_tex2txt nosp files lang multi simple mods define latex extr
           (if has_repl then Some repl else None) unkn thresh fuel)
  | _ -> raise Not_found

let () =
  try
    while true do
      let line = input_line stdin in
      let toks = Array.of_list
          (List.filter (fun s -> s <> "") (String.split_on_char ' ' line)) in
      if Array.length toks > 0 then begin
        Buffer.clear b;
        let r = { toks; i = 1 } in
        (try dispatch toks.(0) r
         with Stack_overflow -> Buffer.clear b; Buffer.add_string b "STACK"
            | Not_found -> Buffer.clear b; Buffer.add_string b "BADOP");
        print_string (Buffer.contents b); print_newline ()
      end
    done
  with End_of_file -> ()
